package main

import (
	"fmt"
	"os"
	"runtime/pprof"

	"verif/mc/fw"
	"verif/mc/props"
)

func main() {
	if len(os.Args) < 2 {
		fmt.Println("usage: verif check <id> <tier> | verif worker ... | verif replay <id> <file> | verif list")
		os.Exit(2)
	}
	self, _ := os.Executable()
	switch os.Args[1] {
	case "worker":
		if p := os.Getenv("VERIF_PROF"); p != "" {
			f, _ := os.Create(fmt.Sprintf("%s.%d", p, os.Getpid()))
			pprof.StartCPUProfile(f)
			rc := fw.WorkerMain(os.Args[2:])
			pprof.StopCPUProfile()
			f.Close()
			os.Exit(rc)
		}
		os.Exit(fw.WorkerMain(os.Args[2:]))
	case "check":
		os.Exit(fw.CheckMain(self, os.Args[2], os.Args[3]))
	case "replay":
		os.Exit(fw.ReplayMain(self, os.Args[2], os.Args[3]))
	case "c16child":
		props.C16ChildMain(os.Args[2:])
	case "c02child":
		props.C02ChildMain(os.Args[2:])
	case "list":
		for _, id := range fw.IDs() {
			fmt.Println(id)
		}
	}
}
