package dbdrv

import (
	"os"
	"runtime/pprof"
	"testing"
	"time"
)

func TestIdle(t *testing.T) {
	if p := os.Getenv("IDLE_PROF"); p != "" {
		f, _ := os.Create(p)
		pprof.StartCPUProfile(f)
		defer pprof.StopCPUProfile()
	}
	dir, _ := os.MkdirTemp(os.Getenv("VERIF_SCRATCH"), "idle")
	defer os.RemoveAll(dir)
	cfg := Config{Tables: []TableDef{{Name: "t1", Stream: "s", Retention: 8 * time.Second,
		SQL: "SELECT a FROM s GROUP BY x, y, period(1s)"}}}
	d, err := Open(dir, cfg)
	if err != nil {
		t.Fatal(err)
	}
	time.Sleep(3 * time.Second)
	d.Close()
}
