package dbdrv

import (
	"os"
	"testing"
	"time"
)

func TestSmoke(t *testing.T) {
	dir, _ := os.MkdirTemp(os.Getenv("VERIF_SCRATCH"), "smoke")
	defer os.RemoveAll(dir)
	cfg := Config{Tables: []TableDef{{Name: "t1", Stream: "s", Retention: 8 * time.Second,
		SQL: "SELECT a, COUNT(a) AS ca, AVG(a) AS av FROM s GROUP BY x, y, period(1s)"}}}
	start := time.Now()
	d, err := Open(dir, cfg)
	if err != nil {
		t.Fatal(err)
	}
	t.Logf("open %v", time.Since(start))
	for i := 0; i < 5; i++ {
		start = time.Now()
		err = d.Insert("s", Point{TS: int64(i) * int64(time.Second) / 2, Dims: map[string]interface{}{"x": 1, "y": true}, Vals: map[string]interface{}{"a": 2.0}})
		if err != nil {
			t.Fatal(err)
		}
		t.Logf("insert %v", time.Since(start))
	}
	start = time.Now()
	r, err := d.Query("SELECT * FROM t1", true)
	t.Logf("query %v err=%v\n%v", time.Since(start), err, r)
	start = time.Now()
	d.FlushAll()
	t.Logf("flush %v", time.Since(start))
	r, err = d.Query("SELECT * FROM t1", false)
	t.Logf("query disk err=%v\n%v", err, r)
	start = time.Now()
	if err := d.Restart(); err != nil {
		t.Fatal(err)
	}
	t.Logf("restart %v", time.Since(start))
	d.Insert("s", Point{TS: int64(3 * time.Second), Dims: map[string]interface{}{"x": 1, "y": true}, Vals: map[string]interface{}{"a": 5.0}})
	r, err = d.Query("SELECT * FROM t1", true)
	t.Logf("query after restart err=%v\n%v now=%v", err, r, d.Now)
	start = time.Now()
	d.Close()
	t.Logf("close %v panics=%v", time.Since(start), d.Panics)
}
