// Package dbdrv drives a real zenodb.DB deterministically: every event
// (insert, flush, restart, alter, clock advance, query) runs to exact
// quiescence, established on the verif hook counters, before the next.
package dbdrv

import (
	"context"
	"encoding/binary"
	"fmt"
	"hash/crc32"
	"io"
	"os"
	"path/filepath"
	"runtime"
	"sort"
	"strings"
	"sync"
	"sync/atomic"
	"time"

	"github.com/getlantern/bytemap"
	"github.com/getlantern/golog"
	"github.com/getlantern/wal"
	"github.com/getlantern/zenodb"
	"github.com/getlantern/zenodb/common"
	"github.com/getlantern/zenodb/core"
	"github.com/getlantern/zenodb/encoding"
	"github.com/getlantern/zenodb/expr"
)

// Epoch is the fixed origin of all harness timestamps. It lies in the past of
// the wall clock (WAL offsets are wall-clock based) and is a multiple of every
// resolution used (counted from Go's zero time as well as from the Unix epoch).
var Epoch = time.Date(2020, 1, 1, 0, 0, 0, 0, time.UTC)

func init() {
	golog.SetOutputs(io.Discard, io.Discard)
	if f := os.Getenv("VERIF_ZENODB_LOG"); f != "" {
		// debugging aid: zenodb's error log to a file
		if w, err := os.OpenFile(f, os.O_CREATE|os.O_APPEND|os.O_WRONLY, 0644); err == nil {
			if os.Getenv("VERIF_ZENODB_LOG_DEBUG") != "" {
				golog.SetOutputs(w, w)
			} else {
				golog.SetOutputs(w, io.Discard)
			}
		}
	}
	zenodb.VerifInitClockHook = func(db *zenodb.DB) {
		initMx.Lock()
		t := initClock
		initMx.Unlock()
		if !t.IsZero() {
			zenodb.VerifAdvanceClock(db, t)
		}
	}
	zenodb.VerifInterceptHook = func(it *zenodb.VerifIteration) bool {
		interceptMx.RLock()
		h := intercept
		interceptMx.RUnlock()
		if h != nil {
			return h(it)
		}
		// default: run every iteration alone, synchronously, through the real
		// doProcessIterations (a batch of one), so that no coalescing timer is
		// involved
		zenodb.VerifProcessIterations([]*zenodb.VerifIteration{it})
		return true
	}
	zenodb.VerifPointHook = func(db *zenodb.DB, table, name string, offset wal.Offset) {
		pointMx.RLock()
		h := pointHook
		extra := extraHooks
		pointMx.RUnlock()
		for _, e := range extra {
			e(db, table, name, offset)
		}
		if h != nil {
			h(db, table, name, offset)
		}
	}
}

var (
	initMx      sync.Mutex
	openMx      sync.Mutex
	initClock   time.Time
	interceptMx sync.RWMutex
	intercept   func(it *zenodb.VerifIteration) bool
	pointMx     sync.RWMutex
	pointHook   func(db *zenodb.DB, table, name string, offset wal.Offset)
	extraHooks  []func(db *zenodb.DB, table, name string, offset wal.Offset)
)

// AddPointHook installs a permanent additional hook (used by the cluster driver).
func AddPointHook(h func(db *zenodb.DB, table, name string, offset wal.Offset)) {
	pointMx.Lock()
	extraHooks = append(append([]func(db *zenodb.DB, table, name string, offset wal.Offset){}, extraHooks...), h)
	pointMx.Unlock()
}

// SetIntercept installs (or, with nil, removes) a custom iteration intercept.
func SetIntercept(h func(it *zenodb.VerifIteration) bool) {
	interceptMx.Lock()
	intercept = h
	interceptMx.Unlock()
}

// SetPointHook installs (or removes) a hook called at every instrumented step.
func SetPointHook(h func(db *zenodb.DB, table, name string, offset wal.Offset)) {
	pointMx.Lock()
	pointHook = h
	pointMx.Unlock()
}

// Point is one inbound data point. TS is nanoseconds relative to Epoch.
type Point struct {
	TS   int64                  `json:"ts"`
	Dims map[string]interface{} `json:"dims"`
	Vals map[string]interface{} `json:"vals"`
}

func (p Point) Time() time.Time { return Epoch.Add(time.Duration(p.TS)) }

// TableDef describes one table or view.
type TableDef struct {
	Name        string        `json:"name"`
	Stream      string        `json:"stream"`
	SQL         string        `json:"sql"`
	Retention   time.Duration `json:"retention"`
	View        bool          `json:"view,omitempty"`
	PartitionBy []string      `json:"partition_by,omitempty"`
	MaxFlush    time.Duration `json:"max_flush,omitempty"`
	MinFlush    time.Duration `json:"min_flush,omitempty"`
}

// Config describes a database.
type Config struct {
	Tables         []TableDef `json:"tables"`
	MaxMemoryRatio float64    `json:"max_memory_ratio,omitempty"`
}

// DB is a driven database instance (which survives restarts).
type DB struct {
	Dir    string
	Cfg    Config
	Z      *zenodb.DB
	Now    time.Time // the model's copy of the virtual clock
	Panics []string
	mx     sync.Mutex
	// per stream: entries the tables are expected to have seen (see Quiesce)
	expected map[string]int // table -> number of entries it must report done
	opts     *zenodb.DBOpts
	Timeout  time.Duration
	TimedOut bool
	// CloseHung: the last Close did not return (the instance was abandoned)
	CloseHung bool
}

func (d *DB) schema() zenodb.Schema {
	s := zenodb.Schema{}
	for _, t := range d.Cfg.Tables {
		s[t.Name] = &zenodb.TableOpts{
			Name:            t.Name,
			View:            t.View,
			SQL:             t.SQL,
			RetentionPeriod: t.Retention,
			PartitionBy:     append([]string(nil), t.PartitionBy...),
			MaxFlushLatency: t.MaxFlush,
			MinFlushLatency: minFlush(t.MinFlush),
		}
	}
	return s
}

// minFlush: after any flush zenodb re-arms its flush timer to 10x the duration
// of that flush (a few ms), clamped to [MinFlushLatency, MaxFlushLatency], so
// with the default MinFlushLatency of 0 a timed flush follows every forced one
// within milliseconds. Timed flushes are explored as the forced-flush actor
// message (DESIGN.md §2.3); unless a check asks for real timers (MinFlush < 0)
// they are pushed out of the way so that schedules are deterministic.
func minFlush(d time.Duration) time.Duration {
	if d == 0 {
		return time.Hour
	}
	if d < 0 {
		return 0
	}
	return d
}

// Open creates the data directory (if needed) and opens the database on it.
func Open(dir string, cfg Config) (*DB, error) {
	d := &DB{Dir: dir, Cfg: cfg, Now: Epoch, Timeout: 30 * time.Second}
	return d, d.open()
}

// OpenAt is like Open but starts the model clock at now.
func OpenAt(dir string, cfg Config, now time.Time) (*DB, error) {
	d := &DB{Dir: dir, Cfg: cfg, Now: now, Timeout: 30 * time.Second}
	return d, d.open()
}

var openCount int64

// zenodb leaves the closing of the data files it reads (fileStore.iterate) and of WAL segments to os.File
// finalizers, i.e. to the garbage collector; a worker that opens thousands of small databases collects rarely and
// would run out of descriptors. Collect when many are open.
func RelieveDescriptors() {
	if atomic.AddInt64(&openCount, 1)%16 != 0 {
		return
	}
	if ents, err := os.ReadDir("/proc/self/fd"); err == nil && len(ents) > 2000 {
		runtime.GC()
		runtime.GC() // finalizers queued by the first cycle run before the second completes
	}
}

func (d *DB) open() error {
	RelieveDescriptors()
	openMx.Lock()
	initMx.Lock()
	initClock = d.Now
	initMx.Unlock()
	opts := &zenodb.DBOpts{
		Dir:                       d.Dir,
		VirtualTime:               true,
		MaxMemoryRatio:            d.Cfg.MaxMemoryRatio,
		IterationCoalesceInterval: time.Millisecond,
		Panic: func(v interface{}) {
			d.mx.Lock()
			d.Panics = append(d.Panics, fmt.Sprint(v))
			d.mx.Unlock()
		},
	}
	z, err := zenodb.NewDB(opts)
	initMx.Lock()
	initClock = time.Time{}
	initMx.Unlock()
	openMx.Unlock()
	if err != nil {
		return err
	}
	d.Z = z
	d.opts = opts
	// NewDB only creates the clock; make sure it is at the model's now even if
	// the hook was not reached
	zenodb.VerifAdvanceClock(z, d.Now)
	if err := z.ApplySchema(d.schema()); err != nil {
		z.Close()
		return err
	}
	// the row store installs its memstore asynchronously; a query issued before
	// that dereferences nil, and a Close issued before the WAL-processing
	// goroutine has registered its task panics in sync.WaitGroup (startup races
	// in zenodb, see DESIGN.md incidental findings) — wait for both.
	deadline := time.Now().Add(d.Timeout)
	for _, t := range d.Cfg.Tables {
		for !zenodb.VerifReady(z, strings.ToLower(t.Name)) || !zenodb.VerifWALProcessingStarted(z, strings.ToLower(t.Name)) {
			if time.Now().After(deadline) {
				d.TimedOut = true
				return fmt.Errorf("row store of %s never became ready", t.Name)
			}
			time.Sleep(50 * time.Microsecond)
		}
	}
	d.computeExpected()
	return nil
}

var castagnoli = crc32.MakeTable(crc32.Castagnoli)

// walEntries parses the WAL directory of a stream the way a reader would and
// returns the offset of every complete entry, in order.
func WALEntries(dir string) []wal.Offset { return walEntries(dir) }

func walEntries(dir string) []wal.Offset {
	var out []wal.Offset
	files, err := os.ReadDir(dir)
	if err != nil {
		return nil
	}
	names := make([]string, 0, len(files))
	for _, f := range files {
		names = append(names, f.Name())
	}
	sort.Strings(names)
	for _, name := range names {
		var seq int64
		if _, err := fmt.Sscanf(name, "%d", &seq); err != nil {
			continue
		}
		b, err := os.ReadFile(filepath.Join(dir, name))
		if err != nil {
			continue
		}
		pos := int64(0)
		for {
			if int64(len(b))-pos < 8 {
				break
			}
			length := int64(binary.BigEndian.Uint32(b[pos:]))
			if length == 0 {
				break
			}
			if int64(len(b))-pos-8 < length {
				break
			}
			sum := crc32.Checksum(b[pos+8:pos+8+length], castagnoli)
			want := binary.BigEndian.Uint32(b[pos+4:])
			pos += 8 + length
			if sum != want {
				// the reader skips an entry whose checksum does not match (a torn tail
				// completed by the sentinel that Open appends)
				continue
			}
			out = append(out, wal.NewOffset(seq, pos))
		}
	}
	return out
}

func (d *DB) streamOf(table string) string {
	for _, t := range d.Cfg.Tables {
		if strings.EqualFold(t.Name, table) {
			return strings.ToLower(t.Stream)
		}
	}
	return ""
}

func (d *DB) computeExpected() {
	d.expected = map[string]int{}
	byStream := map[string][]wal.Offset{}
	for _, t := range d.Cfg.Tables {
		name := strings.ToLower(t.Name)
		stream := strings.ToLower(t.Stream)
		entries, ok := byStream[stream]
		if !ok {
			entries = walEntries(filepath.Join(d.Dir, "_wal", stream))
			byStream[stream] = entries
		}
		start, started := zenodb.VerifTableStart(d.Z, name)
		if !started {
			continue
		}
		n := 0
		for _, e := range entries {
			if e.After(start) {
				n++
			}
		}
		d.expected[name] = n
	}
}

// Tables lists the (lower-cased) names of the stored tables.
func (d *DB) Tables() []string {
	var out []string
	for _, t := range d.Cfg.Tables {
		out = append(out, strings.ToLower(t.Name))
	}
	return out
}

// Quiesce blocks until every table has handled every entry of its stream and
// the row store has applied everything submitted to it. It returns false if
// the (generous) timeout expired, which callers treat as a harness failure.
func (d *DB) Quiesce() bool {
	exp := d.expected
	ok := zenodb.VerifWait(d.Z, d.Timeout, func(counters func(table string) (int, int, int, int)) bool {
		for table, n := range exp {
			_, done, submit, applied := counters(table)
			if done < n || applied < submit {
				return false
			}
		}
		return true
	})
	if !ok {
		d.TimedOut = true
	}
	return ok
}

// InsertNoWait writes a point to the WAL of the stream without waiting.
func (d *DB) InsertNoWait(stream string, p Point) error {
	stream = strings.ToLower(stream)
	err := d.Z.Insert(stream, p.Time(), p.Dims, p.Vals)
	if err != nil {
		return err
	}
	for _, t := range d.Cfg.Tables {
		if strings.ToLower(t.Stream) == stream {
			name := strings.ToLower(t.Name)
			if _, ok := d.expected[name]; ok {
				d.expected[name]++
			}
		}
	}
	return nil
}

// Insert writes a point and waits for quiescence. The model clock follows the
// database's (which only tables that accept the point advance).
func (d *DB) Insert(stream string, p Point) error {
	if err := d.InsertNoWait(stream, p); err != nil {
		return err
	}
	if !d.Quiesce() {
		return fmt.Errorf("quiescence timeout")
	}
	d.Now = zenodb.VerifNow(d.Z)
	return nil
}

// SetClock advances the virtual clock (it never goes backwards).
func (d *DB) SetClock(t time.Time) {
	zenodb.VerifAdvanceClock(d.Z, t)
	d.Now = zenodb.VerifNow(d.Z)
}

func (d *DB) Flush(table string) { zenodb.VerifFlushTable(d.Z, strings.ToLower(table)) }

// FlushAll force-flushes every table. With a memory cap configured it flushes
// the tables one by one instead of calling DB.FlushAll, which deadlocks in that
// configuration (FlushAll holds tablesMutex while the flushing actor's
// shouldSort() wants to read-lock it; see DESIGN.md, incidental findings).
func (d *DB) FlushAll() {
	if d.Cfg.MaxMemoryRatio > 0 {
		for _, t := range d.Cfg.Tables {
			d.Flush(t.Name)
		}
		return
	}
	d.Z.FlushAll()
}

// Close closes the database cleanly.
func (d *DB) Close() {
	if d.Z != nil {
		d.Now = zenodb.VerifNow(d.Z)
		// Close can hang for good if an insert is still in flight (the table's
		// insert goroutine blocks on a row store that has already stopped; see
		// DESIGN.md, incidental findings): do not let that take the worker down.
		z := d.Z
		done := make(chan struct{})
		go func() { z.Close(); close(done) }()
		select {
		case <-done:
		case <-time.After(20 * time.Second):
			d.TimedOut = true
			d.CloseHung = true
		}
		zenodb.VerifForget(d.Z)
		d.Z = nil
	}
}

// Restart closes and reopens the database on the same directory and waits for
// WAL replay to finish.
func (d *DB) Restart() error {
	d.Close()
	if err := d.open(); err != nil {
		return err
	}
	if !d.Quiesce() {
		return fmt.Errorf("quiescence timeout after restart")
	}
	return nil
}

// Alter applies a new schema (same table names) and waits until every row
// store has taken its field update.
func (d *DB) Alter(cfg Config) error {
	d.Cfg = cfg
	if err := d.Z.ApplySchema(d.schema()); err != nil {
		return err
	}
	// ApplySchema hands the new field list to the table's row-store actor over an unbuffered channel, so it
	// returns once the actor has *taken* the message; the actor then finishes that step (flush, new memstore)
	// before it looks at anything else. A forced flush request travels to the same actor and is answered only after
	// it has been processed: used here as a barrier (the memstore is empty by then, so the flush itself does
	// nothing). No waiting on state: whether the row store really adopted the fields is for the checks to judge.
	for _, t := range cfg.Tables {
		if t.View {
			continue
		}
		zenodb.VerifFlushTable(d.Z, strings.ToLower(t.Name))
	}
	return nil
}

// Row is one flat result row.
type Row struct {
	TS   int64 // nanoseconds relative to Epoch
	Key  map[string]interface{}
	Vals []float64
}

// KeyString renders a row key canonically (type-aware).
func KeyString(m map[string]interface{}) string {
	names := make([]string, 0, len(m))
	for k := range m {
		names = append(names, k)
	}
	sort.Strings(names)
	var sb strings.Builder
	for _, k := range names {
		fmt.Fprintf(&sb, "%s=%T:%v;", k, m[k], m[k])
	}
	return sb.String()
}

// Result is a complete query result.
type Result struct {
	Fields     []string
	Rows       []Row
	AsOf       time.Time
	Until      time.Time
	Resolution time.Duration
	Stats      *common.QueryStats
	Plan       string
}

// Query plans and runs a query to completion.
func (d *DB) Query(sql string, includeMemStore bool) (*Result, error) {
	return QueryZ(d.Z, context.Background(), sql, includeMemStore, nil)
}

// QueryZ runs a query against any zenodb.DB. onRow, if given, is called for
// every row after it has been recorded and may stop the iteration or fail it.
func QueryZ(z *zenodb.DB, ctx context.Context, sql string, includeMemStore bool, onRow func(i int, r *Row) (bool, error)) (res *Result, err error) {
	defer func() {
		if p := recover(); p != nil {
			// a panic inside zenodb while planning or running a query is reported as
			// a failed query (the checks treat that as a violation), not as a harness crash
			err = fmt.Errorf("PANIC in query %q: %v\n%s", sql, p, firstRepoFrames())
		}
	}()
	src, err := z.Query(sql, false, nil, includeMemStore)
	if err != nil {
		return nil, err
	}
	return RunSource(ctx, src, onRow)
}

func firstRepoFrames() string {
	buf := make([]byte, 1<<16)
	buf = buf[:runtime.Stack(buf, false)]
	var out []string
	for _, l := range strings.Split(string(buf), "\n") {
		if strings.Contains(l, "/repo/") {
			out = append(out, strings.TrimSpace(l))
			if len(out) >= 6 {
				break
			}
		}
	}
	return strings.Join(out, " <- ")
}

// RunSource iterates a planned query.
func RunSource(ctx context.Context, src core.FlatRowSource, onRow func(i int, r *Row) (bool, error)) (*Result, error) {
	res := &Result{AsOf: src.GetAsOf(), Until: src.GetUntil(), Resolution: src.GetResolution(), Plan: core.FormatSource(src)}
	var mx sync.Mutex
	md, err := src.Iterate(ctx, func(fields core.Fields) error {
		mx.Lock()
		res.Fields = fields.Names()
		mx.Unlock()
		return nil
	}, func(row *core.FlatRow) (bool, error) {
		r := Row{TS: row.TS - Epoch.UnixNano(), Key: row.Key.AsMap(), Vals: append([]float64(nil), row.Values...)}
		mx.Lock()
		res.Rows = append(res.Rows, r)
		i := len(res.Rows) - 1
		mx.Unlock()
		if onRow != nil {
			return onRow(i, &r)
		}
		return true, nil
	})
	if qs, ok := md.(*common.QueryStats); ok {
		res.Stats = qs
	}
	return res, err
}

// Canon renders the rows as a sorted multiset of strings (field order as
// returned).
func (r *Result) Canon() []string {
	out := make([]string, 0, len(r.Rows))
	for _, row := range r.Rows {
		out = append(out, fmt.Sprintf("%d|%s|%v", row.TS, KeyString(row.Key), row.Vals))
	}
	sort.Strings(out)
	return out
}

// String renders fields and sorted rows.
func (r *Result) String() string {
	return fmt.Sprintf("%v\n%s", r.Fields, strings.Join(r.Canon(), "\n"))
}

// StateKey renders everything the row stores keep in canonical form: decoded
// file rows, memstore rows, field layouts, flushCount mod 10 and the WAL
// offsets as ordinals of the stream's entries (the raw offsets are wall-clock
// based). Two instances with equal keys have equal futures.
func (d *DB) StateKey() string {
	var sb strings.Builder
	fmt.Fprintf(&sb, "now=%d;", d.Now.Sub(Epoch))
	ord := map[string]map[string]int{}
	for _, t := range d.Cfg.Tables {
		name := strings.ToLower(t.Name)
		stream := strings.ToLower(t.Stream)
		if ord[stream] == nil {
			ord[stream] = map[string]int{}
			for i, e := range walEntries(filepath.Join(d.Dir, "_wal", stream)) {
				ord[stream][string(e)] = i + 1
			}
		}
		dump, err := zenodb.VerifDump(d.Z, name)
		if err != nil || dump == nil {
			fmt.Fprintf(&sb, "[%s err=%v]", name, err)
			continue
		}
		fmt.Fprintf(&sb, "[%s fields=%v mem=%v file=%q fc=%d", name, dump.Fields, dump.MemFields, dump.FileFields, dump.FlushCount%10)
		off := func(m map[int][]byte) string {
			var parts []string
			for src, o := range m {
				n, ok := ord[stream][string(o)]
				if !ok {
					n = -1
					if len(o) == 0 {
						n = 0
					}
				}
				parts = append(parts, fmt.Sprintf("%d:%d", src, n))
			}
			sort.Strings(parts)
			return strings.Join(parts, ",")
		}
		fmt.Fprintf(&sb, " moff=%s foff=%s hasfile=%v", off(dump.MemOffsets), off(dump.FileOffsets), dump.FileName != "")
		for _, r := range dump.FileRows {
			fmt.Fprintf(&sb, " F%x=%x", r.Key, r.Cols)
		}
		for _, r := range dump.MemRows {
			fmt.Fprintf(&sb, " M%x=%x", r.Key, r.Cols)
		}
		sb.WriteString("]")
	}
	return sb.String()
}

// StoredPeriods decodes which (key, period end) pairs hold a set value in the
// table's file store and memstore. Period ends are ns relative to Epoch.
func (d *DB) StoredPeriods(table string) (file, mem map[string]map[int64]bool, err error) {
	table = strings.ToLower(table)
	dump, err := zenodb.VerifDump(d.Z, table)
	if err != nil || dump == nil {
		return nil, nil, fmt.Errorf("dump: %v", err)
	}
	fields := zenodb.VerifTableFields(d.Z, table)
	decode := func(rows []zenodb.VerifRow, layout []string) map[string]map[int64]bool {
		out := map[string]map[int64]bool{}
		for _, r := range rows {
			key := KeyString(bytemap.ByteMap(r.Key).AsMap())
			for i, col := range r.Cols {
				if len(col) == 0 || i >= len(layout) {
					continue
				}
				var ex expr.Expr
				for _, f := range fields {
					if f.String() == layout[i] {
						ex = f.Expr
					}
				}
				if ex == nil {
					continue
				}
				seq := encoding.Sequence(col)
				until := seq.Until().Sub(Epoch)
				for p := 0; p < seq.NumPeriods(ex.EncodedWidth()); p++ {
					if _, ok := seq.ValueAt(p, ex); ok {
						if out[key] == nil {
							out[key] = map[int64]bool{}
						}
						out[key][int64(until)-int64(p)*int64(dump.Resolution)] = true
					}
				}
			}
		}
		return out
	}
	return decode(dump.FileRows, dump.Fields), decode(dump.MemRows, dump.MemFields), nil
}

// QuiesceN waits until the table has handled n entries since this instance
// was opened (and the row store has applied what it was handed).
func (d *DB) QuiesceN(table string, n int) bool {
	ok := zenodb.VerifWait(d.Z, d.Timeout, func(counters func(table string) (int, int, int, int)) bool {
		_, done, submit, applied := counters(strings.ToLower(table))
		return done >= n && applied >= submit
	})
	if !ok {
		d.TimedOut = true
	}
	return ok
}

// QuiesceWAL re-counts the entries of every stream's WAL (for writers that
// bypass the driver, e.g. the web insert endpoint) and waits for them.
func (d *DB) QuiesceWAL() bool {
	d.computeExpected()
	return d.Quiesce()
}
