// Package refmodel is the reference model the checks compare zenodb with: a
// plain list of raw points and direct re-computation of every aggregate from
// them. It imports nothing from zenodb.
package refmodel

import (
	"fmt"
	"math"
	"sort"
	"strings"
	"time"
)

// Pt is a raw point; TS in nanoseconds relative to the harness epoch (which is
// a multiple of every resolution in use, so period arithmetic can be done on
// the relative value).
type Pt struct {
	TS   int64
	Dims map[string]interface{}
	Vals map[string]interface{}
}

// Num returns the numeric values a table can see in a point: float64 and int
// scalars. Arrays are expanded by Expand before points reach the model.
func Num(v interface{}) (float64, bool) {
	switch x := v.(type) {
	case float64:
		return x, true
	case int:
		return float64(x), true
	}
	return 0, false
}

// HasNumeric tells whether the point carries at least one value of a supported
// numeric type (under any name).
func (p *Pt) HasNumeric() bool {
	for _, v := range p.Vals {
		if _, ok := Num(v); ok {
			return true
		}
		switch x := v.(type) {
		case []float64:
			if len(x) > 0 {
				return true
			}
		case []int:
			if len(x) > 0 {
				return true
			}
		}
	}
	return false
}

// Expand turns a point with array values into the list of scalar points it
// stands for: the first carries every scalar and the first element of every
// array, each further array element is a point of its own carrying only that
// value. With doubleTail, elements 2..n are emitted twice (the behaviour of
// zenodb's doInsert, known finding D9).
func Expand(p *Pt, doubleTail bool) []*Pt {
	main := &Pt{TS: p.TS, Dims: p.Dims, Vals: map[string]interface{}{}}
	var extra []*Pt
	names := make([]string, 0, len(p.Vals))
	for k := range p.Vals {
		names = append(names, k)
	}
	sort.Strings(names)
	hasMain := false
	for _, k := range names {
		switch x := p.Vals[k].(type) {
		case float64, int:
			main.Vals[k] = x
			hasMain = true
		case []float64:
			if len(x) == 0 {
				continue
			}
			main.Vals[k] = x[0]
			hasMain = true
			for _, e := range x[1:] {
				n := 1
				if doubleTail {
					n = 2
				}
				for i := 0; i < n; i++ {
					extra = append(extra, &Pt{TS: p.TS, Dims: p.Dims, Vals: map[string]interface{}{k: e}})
				}
			}
		case []int:
			if len(x) == 0 {
				continue
			}
			main.Vals[k] = x[0]
			hasMain = true
			for _, e := range x[1:] {
				n := 1
				if doubleTail {
					n = 2
				}
				for i := 0; i < n; i++ {
					extra = append(extra, &Pt{TS: p.TS, Dims: p.Dims, Vals: map[string]interface{}{k: float64(e)}})
				}
			}
		}
	}
	var out []*Pt
	if hasMain {
		out = append(out, main)
	}
	return append(out, extra...)
}

// HasArray tells whether any value is an array.
func (p *Pt) HasArray() bool {
	for _, v := range p.Vals {
		switch v.(type) {
		case []float64, []int:
			return true
		}
	}
	return false
}

// ---------------------------------------------------------------------------
// field expressions

// Expr is a field expression evaluated directly over raw points.
type Expr interface {
	// Eval returns the value over pts and whether any point set it.
	Eval(pts []*Pt) (float64, bool)
	SQL() string
}

// Agg is SUM/COUNT/MIN/MAX/AVG/WAVG over a value, optionally BOUNDED.
type Agg struct {
	Kind    string
	Val     string
	W       string // WAVG weight
	Bounded bool
	Lo, Hi  float64
}

func (a Agg) vals(pts []*Pt) (vals []float64, ws []float64) {
	for _, p := range pts {
		v, ok := Num(p.Vals[a.Val])
		if !ok {
			continue
		}
		if a.Bounded && (v < a.Lo || v > a.Hi) {
			continue
		}
		w := 1.0
		if a.Kind == "WAVG" {
			w, ok = Num(p.Vals[a.W])
			if !ok {
				w = 0
			}
		}
		vals = append(vals, v)
		ws = append(ws, w)
	}
	return
}

func (a Agg) Eval(pts []*Pt) (float64, bool) {
	vals, ws := a.vals(pts)
	if len(vals) == 0 {
		return 0, false
	}
	switch a.Kind {
	case "SUM":
		s := 0.0
		for _, v := range vals {
			s += v
		}
		return s, true
	case "COUNT":
		return float64(len(vals)), true
	case "MIN":
		m := vals[0]
		for _, v := range vals {
			m = math.Min(m, v)
		}
		return m, true
	case "MAX":
		m := vals[0]
		for _, v := range vals {
			m = math.Max(m, v)
		}
		return m, true
	case "P50":
		// PERCENTILE(v, 50, lo, hi, 0) over integer-valued points: HDR histogram's
		// ValueAtQuantile with unit-sized buckets
		sorted := append([]float64(nil), vals...)
		sort.Float64s(sorted)
		k := int(0.5*float64(len(sorted)) + 0.5)
		if k < 1 {
			k = 1
		}
		if k > len(sorted) {
			k = len(sorted)
		}
		return sorted[k-1], true
	case "AVG", "WAVG":
		t, c := 0.0, 0.0
		for i, v := range vals {
			t += v * ws[i]
			c += ws[i]
		}
		if c == 0 {
			return 0, true
		}
		return t / c, true
	}
	panic("unknown aggregate " + a.Kind)
}

func (a Agg) SQL() string {
	inner := a.Val
	if a.Bounded {
		inner = fmt.Sprintf("BOUNDED(%s, %v, %v)", a.Val, a.Lo, a.Hi)
	}
	if a.Kind == "WAVG" {
		return fmt.Sprintf("WAVG(%s, %s)", inner, a.W)
	}
	if a.Kind == "P50" {
		return fmt.Sprintf("PERCENTILE(%s, 50, %v, %v, 0)", a.Val, a.Lo, a.Hi)
	}
	return fmt.Sprintf("%s(%s)", a.Kind, inner)
}

// Points is the synthetic _points field: the number of stored points.
type Points struct{}

func (Points) Eval(pts []*Pt) (float64, bool) {
	n := 0.0
	for _, p := range pts {
		if v, ok := Num(p.Vals["_points"]); ok {
			n += v
		} else {
			n++
		}
	}
	return n, len(pts) > 0
}
func (Points) SQL() string { return "_points" }

// Const is a constant.
type Const float64

func (c Const) Eval(pts []*Pt) (float64, bool) { return float64(c), true }
func (c Const) SQL() string                    { return fmt.Sprintf("%v", float64(c)) }

// Bin is arithmetic / comparison / AND / OR over two expressions.
type Bin struct {
	Op   string
	L, R Expr
}

func Calc(op string, l, r float64) float64 {
	b := func(x bool) float64 {
		if x {
			return 1
		}
		return 0
	}
	switch op {
	case "+":
		return l + r
	case "-":
		return l - r
	case "*":
		return l * r
	case "/":
		if r == 0 {
			if l == 0 {
				return 0
			}
			return math.MaxFloat64
		}
		return l / r
	case "<":
		return b(l < r)
	case "<=":
		return b(l <= r)
	case "=":
		return b(l == r)
	case "<>":
		return b(l != r)
	case ">=":
		return b(l >= r)
	case ">":
		return b(l > r)
	case "AND":
		return b(l > 0 && r > 0)
	case "OR":
		return b(l > 0 || r > 0)
	}
	panic("unknown op " + op)
}

func (e Bin) Eval(pts []*Pt) (float64, bool) {
	l, lok := e.L.Eval(pts)
	r, rok := e.R.Eval(pts)
	// a value exists only if some data-backed (non-constant) operand is set
	if !IsConst(e) && (!lok || IsConst(e.L)) && (!rok || IsConst(e.R)) {
		return Calc(e.Op, zeroIfUnset(l, lok), zeroIfUnset(r, rok)), false
	}
	if !lok && !rok {
		return 0, false
	}
	if !lok {
		l = 0
	}
	if !rok {
		r = 0
	}
	return Calc(e.Op, l, r), true
}

func zeroIfUnset(v float64, ok bool) float64 {
	if ok {
		return v
	}
	return 0
}

// IsConst tells whether an expression is built from constants only.
func IsConst(e Expr) bool {
	switch x := e.(type) {
	case Const:
		return true
	case Bin:
		return IsConst(x.L) && IsConst(x.R)
	case If:
		return IsConst(x.X)
	}
	return false
}

func (e Bin) SQL() string { return fmt.Sprintf("(%s %s %s)", e.L.SQL(), e.Op, e.R.SQL()) }

// If restricts the wrapped expression to points whose dims satisfy Cond.
type If struct {
	CondSQL string
	Cond    func(dims map[string]interface{}) bool
	X       Expr
}

func (e If) Eval(pts []*Pt) (float64, bool) {
	var sel []*Pt
	for _, p := range pts {
		if e.Cond(p.Dims) {
			sel = append(sel, p)
		}
	}
	return e.X.Eval(sel)
}
func (e If) SQL() string { return fmt.Sprintf("IF(%s, %s)", e.CondSQL, e.X.SQL()) }

// Field is a named expression.
type Field struct {
	Name string
	Expr Expr
}

// Pred is a predicate over dims with its SQL text.
type Pred struct {
	SQL string
	Fn  func(dims map[string]interface{}) bool
}

// Table is the model of one table.
type Table struct {
	Name       string
	Stream     string
	Fields     []Field // without _points (which zenodb prepends)
	GroupBy    []string // dims; empty = all dims of the point
	Where      *Pred
	Resolution time.Duration
	Retention  time.Duration
}

// SQLText renders the table definition.
func (t *Table) SQLText() string {
	var fs []string
	for _, f := range t.Fields {
		fs = append(fs, fmt.Sprintf("%s AS %s", f.Expr.SQL(), f.Name))
	}
	sql := fmt.Sprintf("SELECT %s FROM %s", strings.Join(fs, ", "), t.Stream)
	if t.Where != nil {
		sql += " WHERE " + t.Where.SQL
	}
	gb := append([]string{}, t.GroupBy...)
	gb = append(gb, fmt.Sprintf("period(%v)", t.Resolution))
	return sql + " GROUP BY " + strings.Join(gb, ", ")
}

// AllFields returns the field list as stored: _points first.
func (t *Table) AllFields() []Field {
	return append([]Field{{"_points", Points{}}}, t.Fields...)
}

// PeriodEnd returns the end of the period a timestamp falls in: the smallest
// multiple of res that is >= ts.
func PeriodEnd(ts int64, res time.Duration) int64 {
	r := int64(res)
	q := ts / r
	if ts%r != 0 && ts > 0 {
		q++
	}
	// for negative ts integer division already rounds toward zero = up
	return q * r
}

// KeyOf renders a group key canonically and type-aware.
func KeyOf(dims map[string]interface{}, groupBy []string) (string, map[string]interface{}) {
	m := map[string]interface{}{}
	if len(groupBy) == 0 {
		for k, v := range dims {
			if v != nil {
				m[k] = v
			}
		}
	} else {
		for _, g := range groupBy {
			if v, ok := dims[g]; ok && v != nil {
				m[g] = v
			}
		}
	}
	return KeyString(m), m
}

func KeyString(m map[string]interface{}) string {
	names := make([]string, 0, len(m))
	for k := range m {
		names = append(names, k)
	}
	sort.Strings(names)
	var sb strings.Builder
	for _, k := range names {
		fmt.Fprintf(&sb, "%s=%T:%v;", k, m[k], m[k])
	}
	return sb.String()
}

// Stored is one accepted point as a table stores it.
type Stored struct {
	Key    string
	KeyMap map[string]interface{}
	Period int64 // period end, ns relative to epoch
	Pt     *Pt
}

// State is the model of a database: tables plus the shared clock.
type State struct {
	Tables []*Table
	Now    int64 // ns relative to epoch; the shared virtual clock
	Stored map[string][]*Stored
	// DoubleTail selects the D9-reproducing variant (array tails applied twice).
	DoubleTail bool
}

func NewState(now int64, tables ...*Table) *State {
	return &State{Tables: tables, Now: now, Stored: map[string][]*Stored{}}
}

// Insert processes a point on a stream through every table fed by it, the way
// zenodb does: retention test against the clock, WHERE, clock advance, then
// storage if the point has any numeric value.
func (s *State) Insert(stream string, p *Pt) {
	now0 := s.Now
	for _, t := range s.Tables {
		if t.Stream != stream {
			continue
		}
		// whichever table goes first sees the clock before this point; the
		// outcome is the same because a point can only be dropped when it is
		// older than the clock, in which case it does not advance it
		if p.TS < now0-int64(t.Retention) {
			continue
		}
		if t.Where != nil && !t.Where.Fn(p.Dims) {
			continue
		}
		if p.TS > s.Now {
			s.Now = p.TS
		}
		key, km := KeyOf(p.Dims, t.GroupBy)
		for _, sp := range Expand(p, s.DoubleTail) {
			s.Stored[t.Name] = append(s.Stored[t.Name], &Stored{Key: key, KeyMap: km, Period: PeriodEnd(p.TS, t.Resolution), Pt: sp})
		}
	}
}

// Advance moves the clock forward.
func (s *State) Advance(now int64) {
	if now > s.Now {
		s.Now = now
	}
}

// Row is one expected flat row.
type Row struct {
	TS   int64
	Key  string
	Vals []float64
	Set  []bool
}

// NativeRows computes the rows of `SELECT * FROM table` at native grouping and
// resolution: one row per (key, period) that holds at least one stored point.
func (s *State) NativeRows(t *Table) []Row {
	return s.RowsFor(t, t.AllFields())
}

// RowsFor computes native rows for the given field list.
func (s *State) RowsFor(t *Table, fields []Field) []Row {
	type gk struct {
		key    string
		period int64
	}
	groups := map[gk][]*Pt{}
	for _, sp := range s.Stored[t.Name] {
		k := gk{sp.Key, sp.Period}
		groups[k] = append(groups[k], sp.Pt)
	}
	var rows []Row
	for k, pts := range groups {
		r := Row{TS: k.period, Key: k.key}
		for _, f := range fields {
			v, ok := f.Expr.Eval(pts)
			r.Vals = append(r.Vals, v)
			r.Set = append(r.Set, ok)
		}
		rows = append(rows, r)
	}
	sort.Slice(rows, func(i, j int) bool {
		if rows[i].TS != rows[j].TS {
			return rows[i].TS < rows[j].TS
		}
		return rows[i].Key < rows[j].Key
	})
	return rows
}

// Window returns the default query window (asOf, until] of a table at the
// current clock, as zenodb's getQueryable computes it.
func (s *State) Window(t *Table) (asOf, until int64) {
	until = PeriodEnd(s.Now, t.Resolution)
	asOf = PeriodEnd(until-int64(t.Retention), t.Resolution)
	return
}

// FloatEq compares with a relative tolerance (floating-point reassociation).
func FloatEq(a, b float64) bool {
	if a == b {
		return true
	}
	d := math.Abs(a - b)
	m := math.Max(math.Abs(a), math.Abs(b))
	return d <= 1e-9*m
}
