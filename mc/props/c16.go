package props

import (
	"bytes"
	"context"
	"encoding/json"
	"fmt"
	"net/http"
	"net/http/httptest"
	"os"
	"os/exec"
	"regexp"
	"runtime/debug"
	"strings"
	"time"

	"github.com/getlantern/bytemap"
	"github.com/gorilla/mux"

	"github.com/getlantern/zenodb"
	"github.com/getlantern/zenodb/core"
	"github.com/getlantern/zenodb/planner"
	"github.com/getlantern/zenodb/sql"
	"github.com/getlantern/zenodb/web"

	"verif/mc/cluster"
	"verif/mc/dbdrv"
	"verif/mc/fw"
)

// C16 — malformed client input yields an error, never a crash or a stalled
// pipeline. Exhaustive enumeration of bounded mutation operators over a seed
// corpus; every candidate runs under recover() with a watchdog.

type c16Case struct {
	Part  string `json:"part"` // sql | insert
	SQL   string `json:"sql,omitempty"`
	Index int    `json:"index,omitempty"`
	Route string `json:"route,omitempty"`
}

var c16Statements = []string{
	"INSERT INTO t16 (a) VALUES (1)", "INSERT INTO t16 SET a = 1", "UPDATE t16 SET a = 1", "UPDATE t16 SET a = 1 WHERE x = 2", "DELETE FROM t16", "DELETE FROM t16 WHERE x = 1",
	"SET a = 1", "SHOW TABLES", "CREATE TABLE t99 (a int)", "ALTER TABLE t16 ADD b int", "DROP TABLE t16", "RENAME TABLE t16 TO t17", "ANALYZE TABLE t16", "/* only a comment */", "",
	"SELECT a FROM t16 UNION SELECT a FROM t16", "SELECT a FROM t16 UNION ALL SELECT b FROM t16", "(SELECT a FROM t16)",
	"SELECT a FROM t16 JOIN t16 AS u ON t16.x = u.x", "SELECT a FROM t16, t16 AS u", "SELECT a FROM (t16)", "SELECT a FROM t16 WHERE x BETWEEN 1 AND 3", "SELECT a FROM t16 WHERE EXISTS (SELECT x FROM t16)",
	"SELECT CASE WHEN a > 1 THEN 1 ELSE 0 END AS c FROM t16", "SELECT -a AS n FROM t16", "SELECT a FROM t16 WHERE x IN (SELECT x FROM t16 UNION SELECT x FROM t16)", "SELECT a FROM t16 USE INDEX (i)", "SELECT a FROM t16 FORCE INDEX (i)",
	"SELECT DISTINCT a FROM t16", "SELECT a FROM t16 FOR UPDATE", "SELECT a FROM t16 WHERE x = -1", "SELECT a FROM t16 WHERE x IS TRUE", "SELECT a FROM t16 GROUP BY x WITH ROLLUP", "SELECT a AS FROM t16", "SELECT FROM t16", "SELECT a FROM", "SELECT",
	"SELECT a FROM t16 WHERE x = (SELECT x FROM t16)", "SELECT a FROM t16 WHERE (x, y) IN ((1, 2))", "SELECT a FROM t16 ASOF 'garbage'", "SELECT a FROM t16 ASOF '-1x' UNTIL 'also garbage'", "SELECT a FROM t16 GROUP BY period(banana)", "SELECT a FROM t16 GROUP BY period()", "SELECT a FROM t16 GROUP BY period(1s, 2s)", "SELECT a FROM t16 GROUP BY STRIDE(0)", "SELECT a FROM t16 LIMIT x", "SELECT a FROM t16 LIMIT -1", "SELECT a FROM t16 LIMIT 1, y", "SELECT a FROM t16 LIMIT 99999999999999999999",
	"SELECT a FROM nosuch", "SELECT nosuch FROM t16", "SELECT NOSUCH(a) FROM t16", "SELECT a FROM t16 WHERE NOSUCH(x) = 1", "SELECT * FROM t16 GROUP BY NOSUCH(x) AS n", "SELECT a FROM t16 HAVING nosuch > 1", "SELECT a FROM t16 ORDER BY nosuch", "SELECT a FROM t16 WHERE x IN (SELECT x, y FROM t16)", "SELECT a FROM t16 WHERE x IN (SELECT * FROM t16)",
}

func c16Corpus() []string {
	var out []string
	out = append(out, strings.ReplaceAll(strings.Join(c04Queries(0), "\n"), "t1", "t16"))
	corpus := strings.Split(out[0], "\n")
	for _, q := range c10Queries("t16") {
		corpus = append(corpus, q)
	}
	corpus = append(corpus, "SELECT PERCENTILE(p, 90) AS p90, a FROM t16 GROUP BY x", "SELECT a FROM t16 WHERE z LIKE 'a%' AND LEN(z) = 1 OR NOT (x IN (1, 3))", "SELECT a FROM t16 WHERE z IS NOT NULL GROUP BY CONCAT('_', x, y) AS c, period(2s) HAVING a > 1 ORDER BY a DESC LIMIT 1, 2")
	return corpus
}

var c16TokenRe = regexp.MustCompile(`'[^']*'|[A-Za-z_][A-Za-z0-9_]*|\d+(?:\.\d+)?|<>|<=|>=|!=|\S`)

func c16Mutations(q string) []string {
	toks := c16TokenRe.FindAllString(q, -1)
	seen := map[string]bool{}
	var out []string
	add := func(t []string) {
		s := strings.Join(t, " ")
		if !seen[s] {
			seen[s] = true
			out = append(out, s)
		}
	}
	for i := range toks {
		// deletion
		d := append(append([]string{}, toks[:i]...), toks[i+1:]...)
		add(d)
		// duplication
		u := append(append(append([]string{}, toks[:i+1]...), toks[i]), toks[i+1:]...)
		add(u)
		// adjacent swap
		if i+1 < len(toks) {
			s := append([]string{}, toks...)
			s[i], s[i+1] = s[i+1], s[i]
			add(s)
		}
		// truncation prefix
		add(toks[:i])
	}
	return out
}

var c16Funcs = []string{"SUM", "MIN", "MAX", "COUNT", "AVG", "WAVG", "IF", "BOUNDED", "PERCENTILE", "SHIFT", "CROSSHIFT", "CROSSTAB", "CROSSTABT", "LN", "LOG2", "LOG10",
	"LEN", "CONCAT", "SPLIT", "SUBSTR", "REPLACEALL", "ANY", "ARRAY", "DECODE", "RAND", "HGET", "SISMEMBER", "LUA", "CITY", "REGION", "REGION_CITY", "COUNTRY_CODE", "ISP", "ORG", "ASN", "ASNAME", "PLEN", "PCONCAT", "NOSUCHFN", "PERIOD", "STRIDE"}
// argument kinds: a SUM field, a number, a string, an array, *, an aggregate call, a duration, and further kinds of
// stored fields and dimensions (an existing PERCENTILE field, an AVG field, a dimension)
var c16ArgKinds = []string{"a", "1", "'s'", "ARRAY(x, y)", "*", "SUM(a)", "'-1s'", "p", "av", "x"}
var c16RegionCityInWhere = regexp.MustCompile(`(?i)\b(WHERE|HAVING)\b.*\bP?REGION_CITY\s*\(`)
var c16NeedsInfra = regexp.MustCompile(`(?i)\b(HGET|SISMEMBER|LUA|CITY|REGION|REGION_CITY|COUNTRY_CODE|ISP|ORG|ASN|ASNAME|RAND)\s*\(`)

func c16FuncQueries() []string {
	var out []string
	for _, fn := range c16Funcs {
		for arity := 0; arity <= 6; arity++ {
			for ki := range c16ArgKinds {
				if arity == 0 && ki > 0 {
					continue
				}
				// three argument patterns: the first argument of the given kind and the rest cycling through the
				// kinds; the first of the given kind followed by numbers (the well-typed shape of most parameter
				// lists, so that arity mistakes are reached); all arguments of the given kind
				seen := map[string]bool{}
				for pattern := 0; pattern < 3; pattern++ {
					args := make([]string, arity)
					for i := range args {
						switch {
						case pattern == 0:
							args[i] = c16ArgKinds[(ki+i)%len(c16ArgKinds)]
						case pattern == 1 && i > 0:
							args[i] = fmt.Sprint(i)
						default:
							args[i] = c16ArgKinds[ki]
						}
					}
					call := fn + "(" + strings.Join(args, ", ") + ")"
					if seen[call] {
						continue
					}
					seen[call] = true
					out = append(out,
						"SELECT "+call+" AS f FROM t16",
						"SELECT a FROM t16 WHERE "+call+" = 1",
						"SELECT a FROM t16 GROUP BY "+call+" AS g",
						"SELECT a FROM t16 HAVING "+call+" > 0")
				}
			}
		}
	}
	return out
}

type c16Env struct {
	db *dbdrv.DB
}

func c16Table() dbdrv.TableDef {
	// a very long retention: payloads with missing or extreme timestamps move the (virtual) clock
	return dbdrv.TableDef{Name: "t16", Stream: "s", Retention: 250 * 365 * 24 * time.Hour, PartitionBy: []string{"x"},
		SQL: "SELECT SUM(a) AS a, COUNT(a) AS ca, AVG(a) AS av, SUM(b) AS b, MAX(a) AS mx, MIN(a) AS mn, PERCENTILE(a, 50, 0, 100, 0) AS p FROM s GROUP BY x, y, z, period(1s)"}
}

func c16Open(c *fw.Ctx) *c16Env {
	def := c16Table()
	def.PartitionBy = nil
	db, err := dbdrv.Open(newDir(c), dbdrv.Config{Tables: []dbdrv.TableDef{def}})
	if err != nil {
		c.Incomplete("open: " + err.Error())
		return nil
	}
	for i, p := range c13Points()[:6] {
		p.Dims["z"] = []string{"a", "ab", "b"}[i%3]
		db.Insert("s", p)
	}
	db.SetClock(dbdrv.Epoch.Add(3 * time.Second))
	return &c16Env{db: db}
}

// guarded runs f under recover with a watchdog; it returns the panic (with the
// frames of the code under test) or "hang".
func guarded(f func()) (problem string) {
	done := make(chan string, 1)
	go func() {
		defer func() {
			if p := recover(); p != nil {
				stack := string(debug.Stack())
				var frames []string
				for _, l := range strings.Split(stack, "\n") {
					l = strings.TrimSpace(l)
					if (strings.HasPrefix(l, "/repo/") || strings.Contains(l, "/pkg/mod/github.com/getlantern/")) && len(frames) < 5 {
						frames = append(frames, l)
					}
				}
				done <- fmt.Sprintf("panic: %v at %s", p, strings.Join(frames, " <- "))
				return
			}
			done <- ""
		}()
		f()
	}()
	select {
	case p := <-done:
		return p
	case <-time.After(20 * time.Second):
		return "hang: no answer within 20 s"
	}
}

func c16PanicKey(problem string) string {
	if strings.HasPrefix(problem, "hang") {
		return "hang"
	}
	i := strings.Index(problem, " at ")
	if i >= 0 {
		where := problem[i+4:]
		if j := strings.Index(where, " "); j > 0 {
			where = where[:j]
		}
		return "panic@" + where
	}
	return "panic"
}

func c16CheckSQL(c *fw.Ctx, env *c16Env, q string) {
	cs := c16Case{Part: "sql", SQL: q}
	report := func(stage, problem string) {
		c.Violate("C16", stage+"-"+c16PanicKey(problem), fmt.Sprintf("%s on %q: %s", stage, q, problem), cs)
	}
	c.Eval(1)
	if c16RegionCityInWhere.MatchString(q) {
		// Planning walks the WHERE expression's lists; the pinned goexpr dependency's
		// regionCity.WalkLists calls itself, which ends in a fatal stack overflow that
		// recover() cannot catch: observe it in a child process.
		self, _ := os.Executable()
		out, _ := exec.Command(self, "c16child", q).CombinedOutput()
		if strings.Contains(string(out), "stack overflow") && strings.Contains(string(out), "regionCity).WalkLists") {
			c.Violate("C16", "D16-region-city-in-where-overflows-the-stack", fmt.Sprintf("planning %q in a child process: fatal error: stack overflow in goexpr/geo.(*regionCity).WalkLists", q), cs)
		} else if !strings.Contains(string(out), "C16CHILD-DONE") {
			c.Violate("C16", "planner-crash-in-child", fmt.Sprintf("planning %q in a child process: %s", q, trunc(string(out), 600)), cs)
		}
		c.Outcome("region-city")
		return
	}
	if p := guarded(func() { sql.Parse(q) }); p != "" {
		report("sql.Parse", p)
		return
	}
	if p := guarded(func() { sql.TableFor(q) }); p != "" {
		report("sql.TableFor", p)
		return
	}
	mock := &c11Env{rows: c11RowSets()[1], partitionBy: []string{"x"}, n: 2}
	mockOpts := func() *planner.Opts {
		o := mock.opts(0, 0)
		orig := o.GetTable
		o.GetTable = func(table string, includedFields func(tableFields core.Fields) (core.Fields, error)) (planner.Table, error) {
			if table == "t16" {
				table = "tablea"
			}
			return orig(table, includedFields)
		}
		return o
	}
	var planErr error
	if p := guarded(func() { _, planErr = planner.Plan(q, mockOpts()) }); p != "" {
		report("planner.Plan(local)", p)
		return
	}
	if p := guarded(func() {
		o := mockOpts()
		o.QueryCluster = mock.queryCluster(nil)
		planner.Plan(q, o)
	}); p != "" {
		report("planner.Plan(cluster)", p)
		return
	}
	if planErr == nil {
		c.Nontrivial(q)
	}
	if c16NeedsInfra.MatchString(q) {
		c.Outcome("planned-only")
		return
	}
	var qerr error
	var src core.FlatRowSource
	if p := guarded(func() { src, qerr = env.db.Z.Query(q, false, nil, true) }); p != "" {
		report("DB.Query(plan)", p)
		return
	}
	if qerr != nil || src == nil {
		c.Outcome("error")
		return
	}
	if p := guarded(func() {
		ctx, cancel := context.WithTimeout(context.Background(), 10*time.Second)
		defer cancel()
		_, qerr = src.Iterate(ctx, func(core.Fields) error { return nil }, func(*core.FlatRow) (bool, error) { return true, nil })
	}); p != "" {
		// The property speaks about parsing and planning. A plan that panics while
		// it is executed (dimension functions of the goexpr dependency fed with
		// arguments of the wrong type) is counted, not reported.
		if strings.HasPrefix(p, "hang") {
			report("DB.Query", p)
			return
		}
		c.Count("plans_that_panic_when_executed", 1)
		c.Outcome("executes-with-panic")
		return
	}
	if qerr != nil {
		c.Outcome("error")
	} else {
		c.Outcome("ok")
	}
}

// c16CheckGap: two points of ONE key far apart in time within one memstore.
// The memstore sequence is grown to span the gap (gap / resolution periods per
// field); with the gap at years the allocation fails and the Go runtime aborts
// the process. Observed in a child process.
func c16CheckGap(c *fw.Ctx) {
	c.Eval(1)
	self, _ := os.Executable()
	dir := newDir(c)
	defer removeDir(dir)
	cmd := exec.Command(self, "c16child", "--gap", dir)
	cmd.Env = os.Environ()
	out, _ := cmd.CombinedOutput()
	cs := c16Case{Part: "insert", Route: "gap-child"}
	switch {
	case strings.Contains(string(out), "C16CHILD-DONE"):
		c.Outcome("gap-survived")
	case (strings.Contains(string(out), "out of memory") || strings.Contains(string(out), "len out of range") || strings.Contains(string(out), "cannot allocate")) && strings.Contains(string(out), "encoding.NewSequence"):
		c.Violate("C16", "D17-far-apart-timestamps-on-one-key-exhaust-memory", "a point at the epoch and a point 6 years later on the same key (1 s resolution), both in the memstore: the process dies in encoding.NewSequence (UpdateValue grows the in-memory sequence across the whole gap)", cs)
	default:
		c.Violate("C16", "insert-crash-in-child", trunc(string(out), 800), cs)
	}
}

// C16ChildMain plans one query (used to observe unrecoverable crashes).
func C16ChildMain(args []string) {
	if args[0] == "--gap" {
		def := c16Table()
		def.PartitionBy = nil
		db, err := dbdrv.Open(args[1], dbdrv.Config{Tables: []dbdrv.TableDef{def}})
		if err != nil {
			fmt.Println("open failed", err)
			return
		}
		dims := map[string]interface{}{"x": 1, "y": "gap"}
		db.Z.Insert("s", dbdrv.Epoch.Add(time.Second), dims, map[string]interface{}{"a": 1.0})
		db.Z.Insert("s", dbdrv.Epoch.Add(6*365*24*time.Hour), dims, map[string]interface{}{"a": 1.0})
		db.QuiesceN("t16", 2)
		db.Close()
		fmt.Println("C16CHILD-DONE")
		return
	}
	mock := &c11Env{rows: c11RowSets()[1], partitionBy: []string{"x"}, n: 2}
	o := mock.opts(0, 0)
	orig := o.GetTable
	o.GetTable = func(table string, includedFields func(tableFields core.Fields) (core.Fields, error)) (planner.Table, error) {
		if table == "t16" {
			table = "tablea"
		}
		return orig(table, includedFields)
	}
	planner.Plan(args[0], o)
	fmt.Println("C16CHILD-DONE")
}

// ---- insert payloads ---------------------------------------------------------------

func c16ValueUniverse() []interface{} {
	return []interface{}{nil, true, int8(1), int16(2), int32(3), int64(4), int(5), byte(6), uint16(7), uint32(8), uint64(9), uint(10), float32(1.5), float64(2.5), "str", "", []byte{1, 2},
		time.Date(2020, 1, 1, 0, 0, 1, 0, time.UTC), []int{}, []float64{}, []int{1, 2}, []float64{1.5, 2.5}, map[string]interface{}{"n": 1}, []interface{}{1, "a"}, json.Number("12"), struct{ A int }{1}}
}

type c16Target struct {
	name   string
	insert func(ts time.Time, dims, vals map[string]interface{}) error
	raw    func(ts time.Time, dims, vals bytemap.ByteMap) error
	// count returns the number of valid marker points ingested (by key)
	count    func() (map[string]float64, error)
	quiesce  func() bool
	closeAll func()
	// broken: a payload stalled this target's pipeline (reported); nothing more can be learned from it, and every
	// further step would only wait for its timeout
	broken bool
}

func c16Marker(i int) (map[string]interface{}, map[string]interface{}) {
	return map[string]interface{}{"x": 1000 + i, "y": "marker", "z": "m"}, map[string]interface{}{"a": 1.0}
}

func c16Standalone(c *fw.Ctx) *c16Target {
	def := c16Table()
	def.PartitionBy = nil
	db, err := dbdrv.Open(newDir(c), dbdrv.Config{Tables: []dbdrv.TableDef{def}})
	if err != nil {
		c.Incomplete("open: " + err.Error())
		return nil
	}
	n := 0
	return &c16Target{name: "standalone",
		insert: func(ts time.Time, dims, vals map[string]interface{}) error {
			err := db.Z.Insert("s", ts, dims, vals)
			if err == nil {
				n++
			}
			return err
		},
		raw: func(ts time.Time, dims, vals bytemap.ByteMap) error {
			err := db.Z.InsertRaw("s", ts, dims, vals)
			if err == nil {
				n++
			}
			return err
		},
		quiesce: func() bool { return db.QuiesceN("t16", n) },
		count: func() (map[string]float64, error) {
			r, err := db.Query("SELECT _points FROM t16 WHERE y = 'marker'", true)
			if err != nil {
				return nil, err
			}
			out := map[string]float64{}
			for _, row := range r.Rows {
				out[fmt.Sprint(row.Key["x"])] += row.Vals[0]
			}
			return out, nil
		},
		closeAll: func() { db.Close() },
	}
}

func c16Cluster(c *fw.Ctx) *c16Target {
	cl, err := cluster.Start(newDir(c), cluster.Config{Tables: []dbdrv.TableDef{c16Table()}, NumPartitions: 2})
	if err != nil {
		c.Incomplete("cluster start: " + err.Error())
		return nil
	}
	return &c16Target{name: "cluster",
		insert: func(ts time.Time, dims, vals map[string]interface{}) error {
			return cl.Leaders[0].Z.Insert("s", ts, dims, vals)
		},
		raw: func(ts time.Time, dims, vals bytemap.ByteMap) error {
			return cl.Leaders[0].Z.InsertRaw("s", ts, dims, vals)
		},
		quiesce: func() bool { return cl.Quiesce() },
		count: func() (map[string]float64, error) {
			out := map[string]float64{}
			for _, f := range cl.Followers {
				r, err := f.Query("SELECT _points FROM t16 WHERE y = 'marker'", true)
				if err != nil {
					return nil, err
				}
				for _, row := range r.Rows {
					out[fmt.Sprint(row.Key["x"])] += row.Vals[0]
				}
			}
			return out, nil
		},
		closeAll: func() { cl.Close() },
	}
}

// c16CheckInsert sandwiches one malformed payload between two valid marker
// points and requires both markers to be ingested exactly once.
func c16CheckInsert(c *fw.Ctx, tg *c16Target, idx int, desc string, send func() error) {
	if tg.broken {
		c.Incomplete("insert payloads after " + tg.name + "'s pipeline stalled were not run")
		return
	}
	c.Eval(1)
	cs := c16Case{Part: "insert", Index: idx, Route: tg.name + ":" + desc}
	ts := dbdrv.Epoch.Add(500 * time.Millisecond)
	d1, v1 := c16Marker(2 * idx)
	d2, v2 := c16Marker(2*idx + 1)
	if err := tg.insert(ts, d1, v1); err != nil {
		c.Incomplete("marker insert failed: " + err.Error())
		return
	}
	var sendErr error
	if p := guarded(func() { sendErr = send() }); p != "" {
		c.Violate("C16", "insert-"+c16PanicKey(p), fmt.Sprintf("%s: payload %s: %s", tg.name, desc, p), cs)
		return
	}
	if err := tg.insert(ts, d2, v2); err != nil {
		c.Violate("C16", "valid-insert-refused-after-malformed", fmt.Sprintf("%s: after payload %s a valid insert fails: %v", tg.name, desc, err), cs)
		return
	}
	if !tg.quiesce() {
		tg.broken = true
		c.Violate("C16", "pipeline-stalled-after-malformed-insert", fmt.Sprintf("%s: after payload %s (send err=%v) ingestion did not catch up", tg.name, desc, sendErr), cs)
		return
	}
	counts, err := tg.count()
	if err != nil {
		c.Violate("C16", "query-fails-after-malformed-insert", fmt.Sprintf("%s: after payload %s: %v", tg.name, desc, err), cs)
		return
	}
	for _, m := range []int{2 * idx, 2*idx + 1} {
		if counts[fmt.Sprint(1000+m)] != 1 {
			c.Violate("C16", "valid-point-lost-around-malformed-insert", fmt.Sprintf("%s: payload %s (send err=%v): marker %d counted %v times (markers: %v)", tg.name, desc, sendErr, m, counts[fmt.Sprint(1000+m)], counts), cs)
			return
		}
	}
	if sendErr != nil {
		c.Outcome("rejected")
	} else {
		c.Outcome("accepted-or-skipped")
	}
	c.Nontrivial(cs.Route)
}

func c16RunInserts(c *fw.Ctx, tg *c16Target, only int) {
	idx := 0
	ts := dbdrv.Epoch.Add(500 * time.Millisecond)
	universe := c16ValueUniverse()
	do := func(desc string, send func() error) {
		idx++
		if only > 0 && idx != only {
			return
		}
		c16CheckInsert(c, tg, idx, desc, send)
	}
	for di, dv := range universe {
		for vi, vv := range universe {
			dv, vv := dv, vv
			do(fmt.Sprintf("Insert(dim x=%T, val a=%T) #%d/%d", dv, vv, di, vi), func() error {
				return tg.insert(ts, map[string]interface{}{"x": dv, "y": "p"}, map[string]interface{}{"a": vv})
			})
		}
	}
	do("Insert(nil dims, nil vals)", func() error { return tg.insert(ts, nil, nil) })
	do("Insert(empty dims, empty vals)", func() error { return tg.insert(ts, map[string]interface{}{}, map[string]interface{}{}) })
	do("Insert(zero time)", func() error {
		return tg.insert(time.Time{}, map[string]interface{}{"x": 1}, map[string]interface{}{"a": 1.0})
	})
	do("Insert(far future, key of its own)", func() error {
		return tg.insert(time.Date(2200, 1, 1, 0, 0, 0, 0, time.UTC), map[string]interface{}{"x": 424242}, map[string]interface{}{"a": 1.0})
	})
	// raw byte maps: every prefix of a valid encoding and every single-byte corruption of it
	validDims := bytemap.New(map[string]interface{}{"x": 5, "y": "p"})
	validVals := bytemap.New(map[string]interface{}{"a": 1.5, "b": 2})
	for n := 0; n < len(validDims); n++ {
		n := n
		do(fmt.Sprintf("InsertRaw(dims truncated to %d bytes)", n), func() error { return tg.raw(ts, validDims[:n], validVals) })
	}
	for n := 0; n < len(validVals); n++ {
		n := n
		do(fmt.Sprintf("InsertRaw(vals truncated to %d bytes)", n), func() error { return tg.raw(ts, validDims, validVals[:n]) })
	}
	for i := 0; i < len(validVals); i++ {
		for _, b := range []byte{0x00, 0xff, validVals[i] + 1} {
			i, b := i, b
			do(fmt.Sprintf("InsertRaw(vals byte %d set to %#x)", i, b), func() error {
				v := append(bytemap.ByteMap(nil), validVals...)
				v[i] = b
				return tg.raw(ts, validDims, v)
			})
		}
	}
	for i := 0; i < len(validDims); i++ {
		for _, b := range []byte{0x00, 0xff, validDims[i] + 1} {
			i, b := i, b
			do(fmt.Sprintf("InsertRaw(dims byte %d set to %#x)", i, b), func() error {
				d := append(bytemap.ByteMap(nil), validDims...)
				d[i] = b
				return tg.raw(ts, d, validVals)
			})
		}
	}
}

// c16RunWebInserts posts JSON payloads to the web insert endpoint.
func c16RunWebInserts(c *fw.Ctx) {
	def := c16Table()
	def.PartitionBy = nil
	db, err := dbdrv.Open(newDir(c), dbdrv.Config{Tables: []dbdrv.TableDef{def}})
	if err != nil {
		c.Incomplete("open: " + err.Error())
		return
	}
	defer db.Close()
	router := mux.NewRouter()
	dir := newDir(c)
	closeFn, err := web.Configure(db.Z, router, &web.Opts{CacheDir: dir})
	if err != nil {
		c.Incomplete("web.Configure: " + err.Error())
		return
	}
	defer closeFn()
	srv := httptest.NewServer(router)
	defer srv.Close()
	post := func(body string) (int, error) {
		resp, err := http.Post(srv.URL+"/insert/s", "application/json", bytes.NewBufferString(body))
		if err != nil {
			return 0, err
		}
		resp.Body.Close()
		return resp.StatusCode, nil
	}
	bodies := []string{
		`{"ts":"2020-01-01T00:00:00.5Z","dims":{"x":1},"vals":{"a":1}}`, `{"ts":"2020-01-01T00:00:00.6Z","dims":{"x":null},"vals":{"a":null}}`, `{"ts":"2020-01-01T00:00:00.6Z","dims":{"x":{"n":1}},"vals":{"a":[1,2]}}`, `{"ts":"2020-01-01T00:00:00.6Z","dims":{"x":[1,"a"]},"vals":{"a":"str"}}`,
		`{"ts":"2020-01-01T00:00:00.6Z","dims":{"x":true},"vals":{"a":true}}`, `{"dims":{},"vals":{}}`, `{"vals":{"a":1}}`, `{"dims":{"x":1}}`, `{}`, `[]`, `[{"dims":{"x":1},"vals":{"a":1}}]`, `"string"`, `42`, `null`, `{"dims":`, `{"ts":"not a time","dims":{"x":1},"vals":{"a":1}}`,
		`{"ts":"2020-01-01T00:00:00.5Z","dims":{"x":1},"vals":{"a":1e400}}`, `{"ts":"2020-01-01T00:00:00.6Z","dims":{"x":1},"vals":{"a":[]}}`, `{"ts":"2020-01-01T00:00:00.6Z","dims":{"x":1},"vals":{"a":[[1]]}}`, `{"ts":"2020-01-01T00:00:00.6Z","dims":{"":1},"vals":{"":1}}`, strings.Repeat("{", 2000),
		`{"ts":"2020-01-01T00:00:00.6Z","dims":{"x":1},"vals":{"a":1}} {"ts":"2020-01-01T00:00:00.6Z","dims":{"x":2},"vals":{"a":"s"}} {"ts":"2020-01-01T00:00:00.6Z","dims":{"x":3},"vals":{"a":2}}`,
		`{"dims":{"x":77,"y":"no timestamp: the server uses its wall clock"},"vals":{"a":1}}`,
	}
	written := 0
	for i, b := range bodies {
		c.Eval(1)
		cs := c16Case{Part: "insert", Index: i, Route: "web:" + b}
		d1, v1 := c16Marker(5000 + 2*i)
		db.Z.Insert("s", dbdrv.Epoch.Add(500*time.Millisecond), d1, v1)
		written++
		var status int
		var perr error
		if p := guarded(func() { status, perr = post(b) }); p != "" {
			c.Violate("C16", "web-insert-"+c16PanicKey(p), fmt.Sprintf("POST %s: %s", trunc(b, 100), p), cs)
			continue
		}
		if perr != nil {
			c.Violate("C16", "web-insert-connection-failed", fmt.Sprintf("POST %s: %v (server crashed?)", trunc(b, 100), perr), cs)
			continue
		}
		d2, v2 := c16Marker(5000 + 2*i + 1)
		if err := db.Z.Insert("s", dbdrv.Epoch.Add(500*time.Millisecond), d2, v2); err != nil {
			c.Violate("C16", "valid-insert-refused-after-malformed", fmt.Sprintf("after POST %s: %v", trunc(b, 100), err), cs)
			continue
		}
		written++
		// how many entries the POST wrote is not known: wait for the WAL to be consumed
		if !db.QuiesceWAL() {
			c.Violate("C16", "pipeline-stalled-after-malformed-insert", fmt.Sprintf("after POST %s (HTTP %d) ingestion did not catch up", trunc(b, 100), status), cs)
			return
		}
		r, err := db.Query("SELECT _points FROM t16 WHERE y = 'marker'", true)
		if err != nil {
			c.Violate("C16", "query-fails-after-malformed-insert", err.Error(), cs)
			continue
		}
		got := map[string]float64{}
		for _, row := range r.Rows {
			got[fmt.Sprint(row.Key["x"])] += row.Vals[0]
		}
		for _, m := range []int{5000 + 2*i, 5000 + 2*i + 1} {
			if got[fmt.Sprint(1000+m)] != 1 {
				c.Violate("C16", "valid-point-lost-around-malformed-insert", fmt.Sprintf("web POST %s (HTTP %d): marker %d counted %v times", trunc(b, 100), status, m, got[fmt.Sprint(1000+m)]), cs)
			}
		}
		c.Outcome(fmt.Sprintf("web-%d", status))
		c.Nontrivial("web:" + b)
	}
}

func init() {
	fw.Register(&fw.Prop{
		ID:          "C16",
		Level:       "exploration",
		NoThreads:   true,
		Rule:        "SQL: 60 statements covering every statement kind and every SELECT construct the vendored grammar accepts but zenodb does not support; a 71-query corpus × all single-token deletions, duplications, adjacent swaps and truncation prefixes (tokenised by the harness); every function name known to sql.go (aggregates, IF, BOUNDED, PERCENTILE, SHIFT, CROSSHIFT, CROSSTAB(T), math, dim functions incl. LUA/HGET/SPLIT/ANY, pushdown P-prefix, an unknown name) × arity 0..6 × 10 argument kinds (incl. an existing PERCENTILE field, an AVG field, a dimension) × 3 argument patterns (kinds cycling, first of the kind followed by numbers, all of the kind) × SELECT/WHERE/GROUP BY/HAVING position; each through sql.Parse, sql.TableFor, planner.Plan (local and with QueryCluster over mock partitions) and DB.Query().Iterate on a small DB (planning only for functions needing redis/geo/ISP infrastructure), under recover() with a 20 s watchdog; inserts: the 26×26 product of Go/JSON value kinds as dimension and value through DB.Insert, nil/empty maps, extreme timestamps, every prefix and every single-byte corruption (3 values per byte) of valid dims and vals through InsertRaw, on a standalone DB and through the leader of a 2-partition cluster, plus 22 JSON bodies through the web insert endpoint; each payload is sandwiched between two valid marker points which must both be ingested exactly once (exact quiescence), i.e. the pipeline neither crashes nor stalls; non-trivial = mutated statement that still plans / payload executed",
		Assumptions: []string{"functions that need redis, geo or ISP infrastructure are parsed and planned but not executed"},
		Shards:      func(tier string) int { return 12 },
		Budget:      func(tier string) time.Duration { return 30 * time.Minute },
		Run: func(c *fw.Ctx) {
			stride := 3
			if c.Thorough() {
				stride = 1
			}
			var all []string
			all = append(all, c16Statements...)
			for _, q := range c16Corpus() {
				all = append(all, q)
				all = append(all, c16Mutations(q)...)
			}
			all = append(all, c16FuncQueries()...)
			env := c16Open(c)
			if env == nil {
				return
			}
			for i := 0; i < len(all); i++ {
				if i >= len(c16Statements) && i%stride != 0 {
					continue
				}
				if !c.Mine(int64(i)) {
					continue
				}
				if c.Expired() {
					c.Incomplete("time budget used up")
					env.db.Close()
					return
				}
				if i%1009 == 0 {
					c.Sample("sql", all[i])
				}
				c16CheckSQL(c, env, all[i])
			}
			env.db.Close()
			// insert payloads: one shard each for standalone, cluster, web
			if c.Shard == 0 || c.NShards == 1 {
				if tg := c16Standalone(c); tg != nil {
					c.Sample("insert", "Insert(dim x=[]int{}, val a=map) sandwiched between two marker points")
					c16RunInserts(c, tg, 0)
					tg.closeAll()
				}
			}
			if c.Shard == 1%c.NShards {
				if tg := c16Cluster(c); tg != nil {
					c16RunInserts(c, tg, 0)
					tg.closeAll()
				}
			}
			if c.Shard == 2%c.NShards {
				c16RunWebInserts(c)
			}
			if c.Shard == 3%c.NShards {
				c16CheckGap(c)
			}
			c.R.Bound = fmt.Sprintf("%d SQL strings (stride %d), all insert payloads", len(all), stride)
		},
		Replay: func(c *fw.Ctx, raw json.RawMessage) {
			var cs c16Case
			if json.Unmarshal(raw, &cs) != nil {
				return
			}
			if cs.Part == "sql" {
				env := c16Open(c)
				if env == nil {
					return
				}
				defer env.db.Close()
				c16CheckSQL(c, env, cs.SQL)
				return
			}
			switch {
			case strings.HasPrefix(cs.Route, "standalone:"):
				if tg := c16Standalone(c); tg != nil {
					c16RunInserts(c, tg, cs.Index)
					tg.closeAll()
				}
			case strings.HasPrefix(cs.Route, "cluster:"):
				if tg := c16Cluster(c); tg != nil {
					c16RunInserts(c, tg, cs.Index)
					tg.closeAll()
				}
			default:
				c16RunWebInserts(c)
			}
		},
	})
	_ = zenodb.DefaultClusterQueryTimeout
}
