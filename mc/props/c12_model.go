package props

import (
	"bytes"
	"fmt"
	"os"
	"os/exec"
	"path/filepath"
	"regexp"
	"sort"
	"strconv"
	"strings"
	"time"

	"github.com/getlantern/bytemap"

	"verif/mc/cluster"
	"verif/mc/dbdrv"
	"verif/mc/fw"
)

// C12 layer 2: a TLA+ model of the offset hand-over (models/c12_follow.tla) is
// explored completely by TLC; because the model records its path in a history
// variable, the state dump lists every path up to the length bound together
// with the follower state the model expects after it. Every path is replayed
// event for event against the implementation and the follower's contents and
// in-memory offsets are compared with the model after every event.

func c12ModelDir(tier string) string { return filepath.Join(fw.Root, ".scratch", "tlc", "c12-"+tier) }

func c12ModelMaxLen(tier string) int {
	if tier == "thorough" {
		return 5
	}
	return 4
}

// c12RunTLC is the check's Pre step.
func c12RunTLC(tier string) (map[string]int64, error) {
	dir := c12ModelDir(tier)
	os.RemoveAll(dir)
	os.MkdirAll(dir, 0755)
	src, err := os.ReadFile(filepath.Join(fw.Root, "models", "c12_follow.tla"))
	if err != nil {
		return nil, err
	}
	os.WriteFile(filepath.Join(dir, "c12_follow.tla"), src, 0644)
	cfg := fmt.Sprintf("CONSTANTS\n  MaxIns = 3\n  MaxLen = %d\n  FixD10 = TRUE\nSPECIFICATION Spec\nINVARIANT ExactlyOnce\n", c12ModelMaxLen(tier))
	os.WriteFile(filepath.Join(dir, "c12_follow.cfg"), []byte(cfg), 0644)
	cmd := exec.Command("tlc", "-deadlock", "-workers", "4", "-metadir", filepath.Join(dir, "meta"), "-dump", filepath.Join(dir, "states"), "c12_follow.tla")
	cmd.Dir = dir
	var out bytes.Buffer
	cmd.Stdout, cmd.Stderr = &out, &out
	done := make(chan error, 1)
	if err := cmd.Start(); err != nil {
		return nil, fmt.Errorf("tlc not runnable: %v", err)
	}
	go func() { done <- cmd.Wait() }()
	select {
	case <-done:
	case <-time.After(10 * time.Minute):
		cmd.Process.Kill()
		return nil, fmt.Errorf("tlc timed out")
	}
	os.WriteFile(filepath.Join(dir, "tlc.out"), out.Bytes(), 0644)
	text := out.String()
	extra := map[string]int64{}
	if m := regexp.MustCompile(`(\d+) states generated, (\d+) distinct states found`).FindStringSubmatch(text); m != nil {
		g, _ := strconv.ParseInt(m[1], 10, 64)
		d, _ := strconv.ParseInt(m[2], 10, 64)
		extra["tlc_states_generated"] = g
		extra["tlc_distinct_states"] = d
	}
	if strings.Contains(text, "is violated") {
		keep := filepath.Join(fw.Root, "replays", "C12-tlc-counterexample.txt")
		os.MkdirAll(filepath.Dir(keep), 0755)
		os.WriteFile(keep, out.Bytes(), 0644)
		return extra, fmt.Errorf("VIOLATION property=C12 replay=%s\n  key=model-invariant-violated (TLC found a path of models/c12_follow.tla on which a point is lost or applied twice)", keep)
	}
	if !strings.Contains(text, "Model checking completed") && extra["tlc_distinct_states"] == 0 {
		return extra, fmt.Errorf("tlc did not complete: %s", trunc(text, 400))
	}
	return extra, nil
}

type c12ModelState struct {
	Hist    [][2]string
	Mem     map[string][]int
	Disk    map[string][]int
	MemOff  map[string]int
	DiskOff map[string]int
	Up      bool
	N       int
}

var (
	reFnSeq = regexp.MustCompile(`(ta|tb) \|-> <<([0-9, ]*)>>`)
	reFnInt = regexp.MustCompile(`(ta|tb) \|-> (\d+)`)
	reTuple = regexp.MustCompile(`<<"([a-z]+)", "([a-z]*)">>`)
)

func c12ParseDump(path string) ([]*c12ModelState, error) {
	b, err := os.ReadFile(path)
	if err != nil {
		return nil, err
	}
	var out []*c12ModelState
	for _, block := range strings.Split(string(b), "\n\n") {
		if !strings.Contains(block, "/\\ hist") {
			continue
		}
		// join continuation lines: variables start with "/\ "
		vars := map[string]string{}
		cur := ""
		for _, line := range strings.Split(block, "\n") {
			if strings.HasPrefix(line, "/\\ ") {
				parts := strings.SplitN(line[3:], " = ", 2)
				if len(parts) == 2 {
					cur = parts[0]
					vars[cur] = parts[1]
				}
			} else if cur != "" && !strings.HasPrefix(line, "State ") {
				vars[cur] += " " + strings.TrimSpace(line)
			}
		}
		st := &c12ModelState{Mem: map[string][]int{}, Disk: map[string][]int{}, MemOff: map[string]int{}, DiskOff: map[string]int{}}
		for _, m := range reTuple.FindAllStringSubmatch(vars["hist"], -1) {
			st.Hist = append(st.Hist, [2]string{m[1], m[2]})
		}
		seqs := func(v string) map[string][]int {
			r := map[string][]int{}
			for _, m := range reFnSeq.FindAllStringSubmatch(v, -1) {
				for _, x := range strings.Split(m[2], ",") {
					n, _ := strconv.Atoi(strings.TrimSpace(x))
					r[m[1]] = append(r[m[1]], n)
				}
			}
			return r
		}
		ints := func(v string) map[string]int {
			r := map[string]int{}
			for _, m := range reFnInt.FindAllStringSubmatch(v, -1) {
				n, _ := strconv.Atoi(m[2])
				r[m[1]] = n
			}
			return r
		}
		st.Mem, st.Disk = seqs(vars["mem"]), seqs(vars["disk"])
		st.MemOff, st.DiskOff = ints(vars["memOff"]), ints(vars["diskOff"])
		st.Up = strings.TrimSpace(vars["up"]) == "TRUE"
		st.N, _ = strconv.Atoi(strings.TrimSpace(vars["n"]))
		out = append(out, st)
	}
	return out, nil
}

func histKey(h [][2]string) string {
	var parts []string
	for _, e := range h {
		parts = append(parts, e[0]+":"+e[1])
	}
	return strings.Join(parts, ";")
}

// c12ModelPoints finds dimension values whose partition (2 partitions) matches
// the routing table of the model for the follower of partition 0.
func c12ModelPoints() []dbdrv.Point {
	part := func(dim string, v interface{}) int {
		return c11PartitionOf(bytemap.New(map[string]interface{}{dim: v}), []string{dim}, 2)
	}
	pick := func(dim string, want int, skip int) interface{} {
		n := 0
		for i := 1; i < 1000; i++ {
			var v interface{} = i
			if dim == "y" {
				v = fmt.Sprintf("y%d", i)
			}
			if part(dim, v) == want {
				if n == skip {
					return v
				}
				n++
			}
		}
		return nil
	}
	mk := func(e int, x, y interface{}, r string) dbdrv.Point {
		return dbdrv.Point{TS: sec / 2, Dims: map[string]interface{}{"x": x, "y": y, "r": r}, Vals: map[string]interface{}{"a": float64(int(1) << uint(e-1))}}
	}
	return []dbdrv.Point{
		mk(1, pick("x", 0, 0), pick("y", 0, 0), "A"), // in F0's partition for ta and tb, passes tb's WHERE
		mk(2, pick("x", 0, 1), pick("y", 1, 0), "A"), // ta only
		mk(3, pick("x", 1, 0), pick("y", 0, 1), "B"), // tb's partition, but filtered by tb's WHERE
	}
}

// c12ReplayPath runs one model path on a fresh cluster and compares after
// every event. states maps a path prefix to the model state after it.
func c12ReplayPath(c *fw.Ctx, path [][2]string, states map[string]*c12ModelState) {
	base := newDir(c)
	defer removeDir(base)
	cl, err := cluster.Start(base+"/cluster", cluster.Config{Tables: c12Tables(), NumPartitions: 2, Leaders: 1, Redundancy: 1})
	if err != nil {
		c.Incomplete("cluster start: " + err.Error())
		return
	}
	defer cl.Close()
	pts := c12ModelPoints()
	f0 := cl.Followers[0]
	n := 0
	cs := map[string]interface{}{"model_path": path}
	for i, ev := range path {
		switch ev[0] {
		case "ins":
			if err := cl.Insert(0, "s", pts[n]); err != nil {
				c.Incomplete("insert: " + err.Error())
				return
			}
			n++
		case "flush":
			f0.Flush(ev[1])
		case "crash":
			img := fmt.Sprintf("%s/img-%d", base, i)
			if err := f0.Snapshot(img); err != nil {
				c.Incomplete("snapshot: " + err.Error())
				return
			}
			if err := f0.CrashRestartFrom(img); err != nil {
				c.Incomplete("crash restart: " + err.Error())
				return
			}
		case "stopstart":
			f0.Stop()
			if err := f0.Open(); err != nil {
				c.Incomplete("start: " + err.Error())
				return
			}
		case "cut":
			f0.Cut(0)
		case "reconnect":
			f0.Reconnect(0)
		case "restartleader":
			if err := cl.Leaders[0].Restart(); err != nil {
				c.Incomplete("leader restart: " + err.Error())
				return
			}
			for _, fo := range cl.Followers {
				if fo.Up {
					fo.Reconnect(0)
				}
			}
		}
		c.Transition(1)
		if !cl.Quiesce() {
			c.Incomplete(fmt.Sprintf("quiescence timeout replaying %v at step %d", path, i))
			return
		}
		want := states[histKey(path[:i+1])]
		if want == nil {
			c.Incomplete("model state for prefix not found: " + histKey(path[:i+1]))
			return
		}
		cl.SetClock(dbdrv.Epoch.Add(time.Second))
		for _, t := range []string{"ta", "tb"} {
			all, err1 := f0.Query("SELECT * FROM "+t, true)
			disk, err2 := f0.Query("SELECT * FROM "+t, false)
			if err1 != nil || err2 != nil {
				c.Violate("C12", "model-replay-query-error", fmt.Sprintf("path %v step %d: %v %v", path, i, err1, err2), cs)
				return
			}
			count := func(r *dbdrv.Result) []int {
				out := make([]int, len(pts))
				for _, row := range r.Rows {
					a := uint64(row.Vals[fieldIdx(r, "a")])
					pc := int(row.Vals[fieldIdx(r, "_points")])
					for e := 0; e < len(pts); e++ {
						if a&(1<<uint(e)) != 0 {
							out[e] += pc
						}
					}
				}
				return out
			}
			gotAll, gotDisk := count(all), count(disk)
			wantAll := make([]int, len(pts))
			for e := range wantAll {
				wantAll[e] = want.Mem[t][e] + want.Disk[t][e]
			}
			memOrd, _ := f0.OffsetOrdinals(t, 0)
			if fmt.Sprint(gotAll) != fmt.Sprint(wantAll) || fmt.Sprint(gotDisk) != fmt.Sprint(want.Disk[t]) || memOrd != want.MemOff[t] {
				c.Violate("C12", "implementation-diverges-from-model", fmt.Sprintf("path %s, after step %d (%v), table %s of follower 0: implementation applied %v (on disk %v, in-memory offset %d); model applied %v (on disk %v, in-memory offset %d)",
					histKey(path), i+1, ev, t, gotAll, gotDisk, memOrd, wantAll, want.Disk[t], want.MemOff[t]), cs)
				return
			}
		}
		c.State("impl|" + histKey(path[:i+1]))
	}
	c.Trace(1)
	c.Outcome("model-path-ok")
}

// c12ReplayModel replays this shard's share of the maximal model paths.
func c12ReplayModel(c *fw.Ctx) {
	dump := filepath.Join(c12ModelDir(c.Tier), "states.dump")
	states, err := c12ParseDump(dump)
	if err != nil || len(states) == 0 {
		c.Incomplete(fmt.Sprintf("no TLC state dump to replay (%v)", err))
		return
	}
	byHist := map[string]*c12ModelState{}
	isPrefix := map[string]bool{}
	for _, s := range states {
		byHist[histKey(s.Hist)] = s
		if len(s.Hist) > 0 {
			isPrefix[histKey(s.Hist[:len(s.Hist)-1])] = true
		}
		c.State("model|" + histKey(s.Hist))
	}
	var maximal []*c12ModelState
	for _, s := range states {
		if len(s.Hist) > 0 && !isPrefix[histKey(s.Hist)] {
			maximal = append(maximal, s)
		}
	}
	sort.Slice(maximal, func(i, j int) bool { return histKey(maximal[i].Hist) < histKey(maximal[j].Hist) })
	c.Count("model_paths_total", int64(len(maximal))/int64(max1(c.NShards)))
	for i, s := range maximal {
		if !c.Mine(int64(i)) {
			continue
		}
		if c.Expired() {
			c.Incomplete("time budget used up while replaying model paths")
			return
		}
		c.Eval(1)
		c.Nontrivial("model|" + histKey(s.Hist))
		if i%97 == 0 {
			c.Sample("model-path", histKey(s.Hist))
		}
		c12ReplayPath(c, s.Hist, byHist)
	}
}

func max1(n int) int {
	if n < 1 {
		return 1
	}
	return n
}
