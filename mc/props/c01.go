package props

import (
	"encoding/json"
	"fmt"
	"time"

	"verif/mc/dbdrv"
	"verif/mc/fw"
	rm "verif/mc/refmodel"
)

// C01 — each ingested point is aggregated exactly once into the right group
// and period. Decided by exhaustive enumeration of event sequences (inserts
// from a 14-point alphabet, Flush(t1), FlushAll) on the real database, with
// the reference model as oracle after every event.

type c01Case struct {
	Schema int   `json:"schema"` // 0 = {t1}, 1 = {t1,t2,v1}
	Events []int `json:"events"` // 0..13 insert alphabet[i]; 14 Flush(t1); 15 FlushAll
	// Start: events run before the enumerated ones (a non-initial start state; checked like the rest)
	Start []int `json:"start,omitempty"`
}

// start states: empty; two keys on disk (periods 1 s and 2 s) plus a point of the first key's next period in memory
func c01Starts() [][]int { return [][]int{nil, {0, 3, 15, 10}} }

const c01NEvents = 16

func c01Tables(schema int) ([]*rm.Table, dbdrv.Config) {
	t1 := tableT1()
	if schema == 0 {
		return []*rm.Table{t1}, dbdrv.Config{Tables: []dbdrv.TableDef{defOf(t1)}}
	}
	t2 := tableT2()
	v1, v1def := viewV1()
	return []*rm.Table{t1, t2, v1}, dbdrv.Config{Tables: []dbdrv.TableDef{defOf(t1), defOf(t2), v1def}}
}

func c01Describe(cs c01Case) interface{} {
	alpha := pointAlphabet()
	var evs []interface{}
	for _, e := range cs.Events {
		switch {
		case e < len(alpha):
			evs = append(evs, map[string]interface{}{"ins": alpha[e]})
		case e == 14:
			evs = append(evs, "Flush(t1)")
		default:
			evs = append(evs, "FlushAll")
		}
	}
	return map[string]interface{}{"schema": cs.Schema, "events": evs}
}

func c01Run(c *fw.Ctx, cs c01Case, replay bool) {
	if len(cs.Start) > 0 {
		cs = c01Case{Schema: cs.Schema, Events: append(append([]int{}, cs.Start...), cs.Events...)}
	}
	alpha := pointAlphabet()
	tables, cfg := c01Tables(cs.Schema)
	dir := newDir(c)
	defer removeDir(dir)
	db, err := dbdrv.Open(dir, cfg)
	if err != nil {
		c.Incomplete("open failed: " + err.Error())
		return
	}
	defer db.Close()
	model := rm.NewState(0, tables...)
	model2 := rm.NewState(0, tables...)
	model2.DoubleTail = true
	hasArray := false
	check := func(step int, includeMem bool) bool {
		for _, t := range tables {
			res, err := db.Query("SELECT * FROM "+t.Name, includeMem)
			if err != nil {
				c.Violate("C01", "query-error", fmt.Sprintf("step %d table %s: query failed: %v", step, t.Name, err), cs)
				return false
			}
			asOf, until := model.Window(t)
			names := fieldNames(t.AllFields())
			diff := compareRows(res, model.NativeRows(t), names, asOf, until)
			c.Outcome(fmt.Sprint(res.Canon()))
			if diff != "" {
				key := "aggregation-mismatch"
				if hasArray && compareRows(res, model2.NativeRows(t), names, asOf, until) == "" {
					key = "D9-array-tail-doubled"
				}
				c.Violate("C01", key, fmt.Sprintf("after event %d of %v, table %s (includeMemStore=%v):\n%s", step, cs.Events, t.Name, includeMem, diff), cs)
				return false
			}
		}
		return true
	}
	for i, e := range cs.Events {
		switch {
		case e < len(alpha):
			p := alpha[e]
			if p.HasArray() {
				hasArray = true
			}
			if err := db.Insert("s", toPoint(p)); err != nil {
				c.Incomplete("insert: " + err.Error())
				return
			}
			model.Insert("s", p)
			model2.Insert("s", p)
		case e == 14:
			db.Flush("t1")
		default:
			db.FlushAll()
		}
		c.Transition(1)
		if int64(db.Now.Sub(dbdrv.Epoch)) != model.Now {
			c.Violate("C01", "clock-mismatch", fmt.Sprintf("after event %d of %v: db clock %v model %v", i, cs.Events, db.Now.Sub(dbdrv.Epoch), time.Duration(model.Now)), cs)
			return
		}
		if c.State(db.StateKey()) || replay {
			if !check(i, true) {
				return
			}
		}
	}
	db.FlushAll()
	c.Transition(1)
	c.State(db.StateKey())
	if !check(len(cs.Events), true) {
		return
	}
	check(len(cs.Events), false)
	if len(db.Panics) > 0 {
		c.Violate("C01", "panic", fmt.Sprint(db.Panics), cs)
	}
}

func init() {
	fw.Register(&fw.Prop{
		ID:    "C01",
		Level: "model_checking",
		Rule: "all event sequences of the bound over {Ins(p) for a 14-point alphabet (boundary/±1ns/mid-period timestamps, int/float/string/array/missing values, typed and missing dims, clock-moving point), Flush(t1), FlushAll} × schemas {t1} and {t1,t2,v1 view}; executed on the real DB with exact quiescence after each event; " +
			"oracle = reference model recomputing every aggregate from raw points, checked after every event on every distinct storage state (VerifDump key) and after a final FlushAll with and without memstore; non-trivial = sequence with >=2 inserts landing in one (key, period)",
		Assumptions: []string{"virtual clock starts at the harness epoch", "float comparisons use 1e-9 relative tolerance", "rows outside the default query window may be present or absent in a native scan"},
		Shards: func(tier string) int {
			if tier == "thorough" {
				return 64 // short-lived workers: every closed zenodb instance leaves goroutines and buffers behind
			}
			return 16
		},
		Budget: func(tier string) time.Duration {
			if tier == "thorough" {
				return 40 * time.Minute
			}
			return 4 * time.Minute
		},
		Run: func(c *fw.Ctx) {
			n := 3
			if c.Thorough() {
				n = 4
			}
			total := ipow(c01NEvents, n)
			var idx int64
			for schema := 0; schema < 2; schema++ {
				for si := int64(0); si < total*int64(len(c01Starts())); si++ {
					i, start := si%total, c01Starts()[si/total]
					idx++
					if !c.Mine(idx) {
						continue
					}
					if c.Expired() {
						c.Incomplete(fmt.Sprintf("time budget used up at case %d of %d (length %d)", idx, 2*total, n))
						return
					}
					cs := c01Case{Schema: schema, Start: start, Events: seqFromIndex(i, c01NEvents, n)}
					c.Eval(1)
					c.Trace(1)
					if c01Collides(cs) {
						c.Nontrivial(fmt.Sprint(cs))
					}
					c.Sample(fmt.Sprintf("schema%d", schema), c01Describe(cs))
					c01Run(c, cs, false)
				}
			}
			c.R.Bound = fmt.Sprintf("all sequences of length <= %d over %d events, 2 schemas, from the empty database and from a state with two keys on disk and one point in memory", n, c01NEvents)
		},
		Replay: func(c *fw.Ctx, raw json.RawMessage) {
			var cs c01Case
			if json.Unmarshal(raw, &cs) != nil {
				return
			}
			c01Run(c, cs, true)
		},
	})
}

// c01Collides tells whether two inserts of the sequence land in the same
// (t1 key, period).
func c01Collides(cs c01Case) bool {
	alpha := pointAlphabet()
	seen := map[string]bool{}
	for _, e := range cs.Events {
		if e >= len(alpha) {
			continue
		}
		p := alpha[e]
		k, _ := rm.KeyOf(p.Dims, []string{"x", "y"})
		kk := fmt.Sprintf("%s@%d", k, rm.PeriodEnd(p.TS, time.Second))
		if seen[kk] {
			return true
		}
		seen[kk] = true
	}
	return false
}
