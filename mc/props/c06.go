package props

import (
	"encoding/json"
	"fmt"
	"math"
	"strings"
	"time"

	"verif/mc/dbdrv"
	"verif/mc/fw"
)

// C06 — coarser grouping (fewer dims, longer period) re-aggregates without
// loss or overlap.

type c06Case struct {
	Dataset []t6Cell `json:"dataset"`
	Split   int      `json:"split"`
	NowHalf int      `json:"now_half_s"` // clock position in half seconds
	GroupBy int      `json:"group_by"`   // index into c06GroupBys
	K       int      `json:"k"`          // period multiple (1 = no period clause)
	Fields  string   `json:"fields"`
	// AsOf: explicit lower bound in half seconds after the epoch (0 = none): data before it exists, and the window is
	// then usually not a multiple of the period
	AsOf int `json:"asof_half_s,omitempty"`
}

var c06AsOfs = []int{0, 3, 4}

var c06GroupBys = [][]string{nil, {"x", "y"}, {"x"}, {"y"}, {"_"}}
var c06Ks = []int{1, 2, 3, 5, 8, 16}
var c06Fields = []string{"*", "a", "av", "ratio", "av, ca"}
var c06Nows = []int{10, 11, 12, 16} // half seconds: last period end, +1/2, +1, +3 periods

func c06SQL(cs c06Case) string {
	sql := fmt.Sprintf("SELECT %s FROM t6", cs.Fields)
	if cs.AsOf > 0 {
		sql += fmt.Sprintf(" ASOF '%s'", dbdrv.Epoch.Add(time.Duration(cs.AsOf)*time.Second/2).Format(time.RFC3339Nano))
	}
	var gb []string
	if g := c06GroupBys[cs.GroupBy]; g != nil {
		gb = append(gb, g...)
	}
	if cs.K > 1 {
		gb = append(gb, fmt.Sprintf("period(%ds)", cs.K))
	}
	if len(gb) > 0 {
		sql += " GROUP BY " + strings.Join(gb, ", ")
	}
	return sql
}

func c06Check(c *fw.Ctx, env *t6Env, cs c06Case) {
	sql := c06SQL(cs)
	res, err := env.db.Query(sql, true)
	c.Eval(1)
	if err != nil {
		// a refusal must not depend on the data: count it, never a pass of the row oracle
		c.Count("queries_refused", 1)
		c.Outcome("refused:" + err.Error())
		if cs.AsOf > 0 {
			// explicit ranges and their refusals are C07's subject
			return
		}
		if !strings.Contains(err.Error(), "multiple of table resolution") && !strings.Contains(err.Error(), "higher than table resolution") {
			c.Violate("C06", "query-error", fmt.Sprintf("%s: %v", sql, err), cs)
		}
		return
	}
	now := int64(cs.NowHalf) * sec / 2
	tAsOf, tUntil := tableWindow(now, env.t.Resolution, env.t.Retention)
	native := cs.GroupBy == 0 && cs.K == 1 && cs.Fields == "*"
	q := qSpec{GroupBy: c06GroupBys[cs.GroupBy], NativeRs: int64(env.t.Resolution), Lo: tAsOf, Hi: tUntil, ReqA: math.MinInt64, ReqU: math.MaxInt64, OldestT: math.MinInt64}
	if cs.GroupBy == 1 {
		q.GroupBy = nil
	}
	if !native {
		q.OldestT = now - int64(env.t.Retention) - int64(env.t.Resolution)
	}
	if cs.AsOf > 0 {
		q.ReqA = int64(cs.AsOf) * sec / 2
		if q.ReqA > q.Lo {
			q.Lo = q.ReqA
		}
		if q.Lo >= q.Hi {
			return
		}
	}
	if class, msg := checkSemantics(res, env.pts, q); class != "" {
		c.Violate("C06", class, fmt.Sprintf("%s (dataset %v split %d now=%v; plan window (%v, %v] resolution %v):\n%s\nrows: %v", sql, cs.Dataset, cs.Split, time.Duration(now), res.AsOf.Sub(dbdrv.Epoch), res.Until.Sub(dbdrv.Epoch), res.Resolution, msg, res.Canon()), cs)
		return
	}
	if len(res.Rows) > 0 && (cs.K > 1 || cs.GroupBy >= 2) {
		c.Nontrivial(fmt.Sprintf("%v|%d|%d|%s", cs.Dataset, cs.Split, cs.NowHalf, sql))
	}
	c.Outcome(fmt.Sprintf("%d rows res %v", len(res.Rows), res.Resolution))
}

func tableWindow(now int64, res, ret time.Duration) (asOf, until int64) {
	r := int64(res)
	until = (now + r - 1) / r * r
	a := until - int64(ret)
	asOf = a
	if a%r != 0 {
		if a > 0 {
			asOf = (a/r + 1) * r
		} else {
			asOf = a / r * r
		}
	}
	return
}

func c06RunDataset(c *fw.Ctx, set []t6Cell, split int, only *c06Case) {
	dir := newDir(c)
	defer removeDir(dir)
	env := t6Open(c, dir, set, split)
	if env == nil {
		return
	}
	defer env.db.Close()
	for _, nh := range c06Nows {
		if only != nil && nh > only.NowHalf {
			break
		}
		env.db.SetClock(dbdrv.Epoch.Add(time.Duration(nh) * time.Second / 2))
		if only != nil {
			if nh == only.NowHalf {
				c06Check(c, env, *only)
			}
			continue
		}
		for gi := range c06GroupBys {
			for _, k := range c06Ks {
				for _, f := range c06Fields {
					for _, ao := range c06AsOfs {
						if ao > 0 && (f == "*" || f == "ratio") {
							continue // two field lists are enough under an explicit range
						}
						cs := c06Case{Dataset: set, Split: split, NowHalf: nh, GroupBy: gi, K: k, Fields: f, AsOf: ao}
						if gi == 2 && k == 3 && f == "av, ca" && ao == 0 {
							c.Sample("query", map[string]interface{}{"dataset": set, "split": split, "now_s": float64(nh) / 2, "sql": c06SQL(cs)})
						}
						c06Check(c, env, cs)
					}
				}
			}
		}
	}
}

func init() {
	fw.Register(&fw.Prop{
		ID:          "C06",
		Level:       "exploration",
		Rule:        "datasets: all sets of up to 2 (quick) / 3 (thorough) cells over 6 keys (x in {1,2} × y in {true,false,absent}) × 5 periods, canonical under renaming x, plus 4 richer sets; each × storage {memory, disk, split} × clock {last period end, +½, +1, +3 periods} × GROUP BY {none, x y, x, y, _} × period(k·res) for k in {1,2,3,5,8,16} (non-divisors of and larger than the window included) × fields {*, a, av, ratio, 'av, ca'}, and for three of the field lists also under an explicit ASOF at 1.5 s and 2 s after the first period (data before the bound, window not a multiple of the period); oracle (anchoring-agnostic): per key the intervals (T-P, T] are disjoint, every point whose native period lies wholly in the window is covered by exactly one row, every row wholly inside the window equals the aggregate recomputed from the raw points of its interval (AVG/ratio recomputed), edge-straddling rows hold only points of their interval, no row without points, nothing older than one resolution before the window; P is read from the plan; non-trivial = coarser grouping with rows",
		Assumptions: []string{"values are distinct powers of two so that a sum identifies the contributing points", "a query the planner refuses (period not a multiple of the resolution) is counted separately"},
		Shards:      func(tier string) int { return 16 },
		Budget: func(tier string) time.Duration {
			if tier == "thorough" {
				return 45 * time.Minute
			}
			return 4 * time.Minute
		},
		Run: func(c *fw.Ctx) {
			maxN := 2
			if c.Thorough() {
				maxN = 3
			}
			var idx int64
			for _, set := range t6Datasets(maxN) {
				for split := 0; split < 3; split++ {
					idx++
					if !c.Mine(idx) {
						continue
					}
					if c.Expired() {
						c.Incomplete("time budget used up")
						return
					}
					c06RunDataset(c, set, split, nil)
				}
			}
			c.R.Bound = fmt.Sprintf("datasets of up to %d cells", maxN)
		},
		Replay: func(c *fw.Ctx, raw json.RawMessage) {
			var cs c06Case
			if json.Unmarshal(raw, &cs) != nil {
				return
			}
			c06RunDataset(c, cs.Dataset, cs.Split, &cs)
		},
	})
}
