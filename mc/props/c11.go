package props

import (
	"context"
	"encoding/json"
	"fmt"
	"math"
	"sort"
	"strings"
	"time"

	"github.com/getlantern/bytemap"
	"github.com/getlantern/goexpr"
	"github.com/spaolacci/murmur3"

	"github.com/getlantern/zenodb/core"
	"github.com/getlantern/zenodb/encoding"
	"github.com/getlantern/zenodb/expr"
	"github.com/getlantern/zenodb/planner"

	"verif/mc/dbdrv"
	"verif/mc/fw"
)

// C11 — the distributed query plan is equivalent to the local plan.
// Translation validation per enumerated program, at planner level with mock
// tables: the plan produced for a cluster is executed against partitions that
// split the rows by the same murmur3 rule zenodb uses, and compared with the
// local plan over the union.

var (
	c11Epoch = time.Date(2015, 1, 1, 0, 0, 0, 0, time.UTC)
	c11Res   = time.Second
	c11AsOf  = c11Epoch.Add(-20 * time.Second)
	c11Until = c11Epoch
	c11EA    = expr.SUM("a")
	c11EB    = expr.SUM("b")
	c11Flds  = core.Fields{core.PointsField, core.NewField("a", c11EA), core.NewField("b", c11EB)}
)

type c11Row struct {
	P    int // period: ends at epoch - P seconds
	X    int
	Y    string
	Z    string
	A, B float64
}

func c11RowSets() [][]c11Row {
	return [][]c11Row{
		{{9, 1, "a", "group by me", 10, 0}, {8, 2, "b", "q", 0, 20}, {5, 1, "b", "x having y limit 1", 50, 1}, {4, 3, "a", "q", 2, 60}, {3, 1, "a", "group by me", 70, 0}, {2, 2, "b", "q", 0, 80}, {1, 1, "c", "q", 90, 4}, {0, 3, "b", "group by me", 8, 100}},
		{{3, 1, "a", "q", 1, 1}, {3, 2, "a", "q", 2, 2}, {3, 3, "a", "q", 4, 4}, {3, 1, "b", "q", 8, 8}, {2, 1, "a", "q", 16, 16}, {2, 2, "b", "group by me", 32, 32}},
		{{1, 2, "", "q", 12, 0}, {1, 0, "a", "q", 11, 3}, {0, 2, "a", "", 13, 5}, {0, 2, "a", "x having y limit 1", 14, 0}},
	}
}

func (r c11Row) key() bytemap.ByteMap {
	m := map[string]interface{}{}
	if r.X != 0 {
		m["x"] = r.X
	}
	if r.Y != "" {
		m["y"] = r.Y
	}
	if r.Z != "" {
		m["z"] = r.Z
	}
	return bytemap.New(m)
}

type c11Table struct {
	name        string
	fields      core.Fields
	rows        []c11Row
	partitionBy []string
	part, n     int // n == 0: the whole table
	groupBy     []string
}

func (t *c11Table) GetGroupBy() []core.GroupBy {
	out := []core.GroupBy{}
	for _, g := range t.groupBy {
		out = append(out, core.NewGroupBy(g, goexpr.Param(g)))
	}
	return out
}
func (t *c11Table) GetResolution() time.Duration { return c11Res }
func (t *c11Table) GetAsOf() time.Time           { return c11AsOf }
func (t *c11Table) GetUntil() time.Time          { return c11Until }
func (t *c11Table) GetPartitionBy() []string     { return t.partitionBy }
func (t *c11Table) String() string               { return t.name }

func c11PartitionOf(key bytemap.ByteMap, partitionBy []string, n int) int {
	h := murmur3.New32()
	if len(partitionBy) > 0 {
		for _, k := range partitionBy {
			if b := key.GetBytes(k); len(b) > 0 {
				h.Write(b)
			}
		}
	} else {
		h.Write(key)
	}
	return int(h.Sum32()) % n
}

func (t *c11Table) Iterate(ctx context.Context, onFields core.OnFields, onRow core.OnRow) (interface{}, error) {
	if err := onFields(t.fields); err != nil {
		return nil, err
	}
	merged := map[string]core.Vals{}
	var order []bytemap.ByteMap
	for _, r := range t.rows {
		key := r.key()
		if t.n > 0 && c11PartitionOf(key, t.partitionBy, t.n) != t.part {
			continue
		}
		if t.groupBy != nil {
			// the stored key carries the kept dimensions only (partition membership was decided on the point)
			m := map[string]interface{}{}
			for _, g := range t.groupBy {
				if v := key.Get(g); v != nil {
					m[g] = v
				}
			}
			key = bytemap.New(m)
		}
		ts := c11Epoch.Add(-time.Duration(r.P) * c11Res)
		vals := make(core.Vals, len(t.fields))
		for i, f := range t.fields {
			switch f.Name {
			case "_points":
				vals[i] = encoding.NewFloatValue(core.PointsField.Expr, ts, 1)
			case "a":
				if r.A != 0 {
					vals[i] = encoding.NewFloatValue(c11EA, ts, r.A)
				}
			case "b":
				if r.B != 0 {
					vals[i] = encoding.NewFloatValue(c11EB, ts, r.B)
				}
			}
		}
		if t.groupBy != nil {
			// like the real table, one stored row per kept key: merge
			ks := string(key)
			if prev, ok := merged[ks]; ok {
				for i, f := range t.fields {
					prev[i] = prev[i].Merge(vals[i], f.Expr, c11Res, time.Time{})
				}
			} else {
				merged[ks] = vals
				order = append(order, key)
			}
			continue
		}
		more, err := onRow(key, vals)
		if err != nil || !more {
			return nil, err
		}
	}
	for _, key := range order {
		more, err := onRow(key, merged[string(key)])
		if err != nil || !more {
			return nil, err
		}
	}
	return nil, nil
}

type c11Env struct {
	rows        []c11Row
	partitionBy []string
	n           int
	groupBy     []string
}

func (e *c11Env) opts(part, n int) *planner.Opts {
	return &planner.Opts{
		GetTable: func(table string, includedFields func(tableFields core.Fields) (core.Fields, error)) (planner.Table, error) {
			if table != "tablea" && table != "tb" {
				return nil, fmt.Errorf("Table %v not found", table)
			}
			included, err := includedFields(c11Flds)
			if err != nil {
				return nil, err
			}
			rows := e.rows
			if table == "tb" {
				rows = e.rows[:len(e.rows)/2+1]
			}
			return &c11Table{name: table, fields: included, rows: rows, partitionBy: e.partitionBy, part: part, n: n, groupBy: e.groupBy}, nil
		},
		Now: func(table string) time.Time { return c11Epoch },
	}
}

// queryCluster mimics DB.queryCluster: the SQL is planned and run on every
// partition, the first partition's fields are announced, rows are forwarded.
func (e *c11Env) queryCluster(perPartition *[][]string) planner.QueryClusterFN {
	return func(ctx context.Context, sqlString string, isSubQuery bool, subQueryResults [][]interface{}, unflat bool, onFields core.OnFields, onRow core.OnRow, onFlatRow core.OnFlatRow) (interface{}, error) {
		fieldsSent := false
		for i := 0; i < e.n; i++ {
			opts := e.opts(i, e.n)
			opts.IsSubQuery = isSubQuery
			opts.SubQueryResults = subQueryResults
			plan, err := planner.Plan(sqlString, opts)
			if err != nil {
				return nil, err
			}
			of := func(fields core.Fields) error {
				if fieldsSent {
					return nil
				}
				fieldsSent = true
				return onFields(fields)
			}
			var part []string
			if unflat {
				_, err = core.UnflattenOptimized(plan).Iterate(ctx, of, func(key bytemap.ByteMap, vals core.Vals) (bool, error) {
					return onRow(key, vals)
				})
			} else {
				_, err = plan.Iterate(ctx, of, func(row *core.FlatRow) (bool, error) {
					part = append(part, fmt.Sprintf("%d|%s", row.TS, dbdrv.KeyString(row.Key.AsMap())))
					return onFlatRow(row)
				})
			}
			if err != nil {
				return nil, err
			}
			if perPartition != nil {
				*perPartition = append(*perPartition, part)
			}
		}
		return nil, nil
	}
}

type c11Case struct {
	SQL         string   `json:"sql"`
	RowSet      int      `json:"row_set"`
	PartitionBy []string `json:"partition_by"`
	N           int      `json:"n"`
	// TableGroupBy: the dimensions the table itself keeps (nil = all): a table that drops dimensions stores one key
	// on several partitions unless it is partitioned by kept dimensions only
	TableGroupBy []string `json:"table_group_by,omitempty"`
}

var c11Selects = []string{"*", "a", "a, b", "a + b AS t", "AVG(a) AS av", "_"}
var c11Wheres = []string{"", "x = 1", "z = 'group by me'", "z = 'x having y limit 1'", "x IN (SELECT x FROM tb GROUP BY x)"}
var c11GroupBys = []string{"", "*", "x", "y", "x, y", "CONCAT('_', x, y) AS c", "x, period(2s)", "_, STRIDE(4s)"}
var c11Crosstabs = []string{"", "CROSSTAB(y)", "CROSSTABT(y)"}
var c11Havings = []string{"", "a > 10", "b > 0"}
var c11Orders = []string{"", "_time", "a DESC"}
var c11Limits = []string{"", "1", "1, 2"}
var c11Froms = []string{"tablea", "(SELECT * FROM tablea GROUP BY x, y)", "(SELECT * FROM tablea GROUP BY x, y ORDER BY _time)"}

// FROM-subqueries whose inner GROUP BY drops, or shadows by an alias, a dimension the outer query groups by (the inner
// groups then span partitions even when the outer GROUP BY names every partition key); crossed with a reduced set of
// the other clauses
var c11FromsDropping = []string{"(SELECT * FROM tablea GROUP BY y)", "(SELECT * FROM tablea GROUP BY x)", "(SELECT a, b FROM tablea GROUP BY y, CONCAT('_', y) AS x)", "(SELECT a, b FROM tablea GROUP BY y, LEN(y) AS x)"}

func c11Programs() []string {
	out := c11ProgramsOver(c11Froms, c11Wheres, c11Havings, c11Orders, c11Limits)
	return append(out, c11ProgramsOver(c11FromsDropping, []string{"", "x = 1"}, []string{"", "a > 10"}, []string{"", "a DESC"}, []string{"", "1"})...)
}

func c11ProgramsOver(froms, wheres, havings, orders, limits []string) []string {
	var out []string
	for _, from := range froms {
		for _, sel := range c11Selects {
			for _, wh := range wheres {
				for _, gb := range c11GroupBys {
					for _, ct := range c11Crosstabs {
						for _, hv := range havings {
							for _, ob := range orders {
								for _, lm := range limits {
									sql := "SELECT " + sel + " FROM " + from
									if wh != "" {
										sql += " WHERE " + wh
									}
									parts := []string{}
									if gb != "" {
										parts = append(parts, gb)
									}
									if ct != "" {
										parts = append(parts, ct)
									}
									if len(parts) > 0 {
										sql += " GROUP BY " + strings.Join(parts, ", ")
									}
									if hv != "" {
										sql += " HAVING " + hv
									}
									if ob != "" {
										sql += " ORDER BY " + ob
									}
									if lm != "" {
										sql += " LIMIT " + lm
									}
									out = append(out, sql)
								}
							}
						}
					}
				}
			}
		}
	}
	return out
}

type c11Result struct {
	fields []string
	rows   []string // in order
	keys   []string // row identity (ts|key) in order
	err    error
	plan   string
}

func c11Exec(plan core.FlatRowSource) (r *c11Result) {
	r = &c11Result{plan: core.FormatSource(plan)}
	defer func() {
		if p := recover(); p != nil {
			r.err = fmt.Errorf("PANIC: %v", p)
		}
	}()
	_, err := plan.Iterate(context.Background(), func(fields core.Fields) error {
		r.fields = fields.Names()
		return nil
	}, func(row *core.FlatRow) (bool, error) {
		vals := make([]string, len(row.Values))
		for i, v := range row.Values {
			vals[i] = fmt.Sprintf("%.9g", v)
			if math.Abs(v) < 1e-12 {
				vals[i] = "0"
			}
		}
		id := fmt.Sprintf("%d|%s", row.TS, dbdrv.KeyString(row.Key.AsMap()))
		r.keys = append(r.keys, id)
		r.rows = append(r.rows, id+"|"+strings.Join(vals, ","))
		return true, nil
	})
	r.err = err
	return r
}

func sortedKeys(m map[string]bool) []string {
	var out []string
	for k := range m {
		out = append(out, k)
	}
	sort.Strings(out)
	return out
}

func sortedCopy(s []string) []string {
	c := append([]string(nil), s...)
	sort.Strings(c)
	return c
}

func c11Check(c *fw.Ctx, cs c11Case) {
	env := &c11Env{rows: c11RowSets()[cs.RowSet], partitionBy: cs.PartitionBy, n: cs.N, groupBy: cs.TableGroupBy}
	c.Eval(1)
	localPlan, lerr := planner.Plan(cs.SQL, env.opts(0, 0))
	if lerr != nil {
		c.Count("rejected_by_local_planner", 1)
		c.Outcome("local-reject")
		return
	}
	local := c11Exec(localPlan)
	var perPartition [][]string
	copts := env.opts(0, 0)
	copts.QueryCluster = env.queryCluster(&perPartition)
	var clusterPlan core.FlatRowSource
	var cerr error
	func() {
		defer func() {
			if p := recover(); p != nil {
				cerr = fmt.Errorf("PANIC while planning: %v", p)
			}
		}()
		clusterPlan, cerr = planner.Plan(cs.SQL, copts)
	}()
	lower := strings.ToLower(cs.SQL)
	fail := func(key, msg string) {
		c.Disagreement(1)
		c.Violate("C11", key, fmt.Sprintf("%s\npartitionBy=%v N=%d row set %d table keeps %v\n%s", cs.SQL, cs.PartitionBy, cs.N, cs.RowSet, cs.TableGroupBy, msg), cs)
	}
	if cerr != nil {
		if local.err != nil {
			c.Outcome("both-fail")
			return
		}
		key := "cluster-plan-error"
		// D8, matched narrowly: planning fails with a parse/plan error and a
		// keyword the text surgery looks for occurs inside a string literal or a
		// FROM-subquery, i.e. before the outer clause it was meant to find
		if strings.Contains(cerr.Error(), "Unable to plan non-pushdown query") || strings.Contains(cerr.Error(), "syntax error") || strings.Contains(cerr.Error(), "Error parsing") {
			for _, kw := range []string{"group by ", "having ", "order by ", "limit "} {
				i := strings.Index(lower, kw)
				if i >= 0 && (strings.Count(lower[:i], "'")%2 == 1 || strings.Count(lower[:i], "(") > strings.Count(lower[:i], ")")) {
					key = "D8-non-pushdown-text-surgery"
				}
			}
		}
		fail(key, fmt.Sprintf("cluster planning failed: %v\nlocal plan:\n%s", cerr, local.plan))
		return
	}
	cluster := c11Exec(clusterPlan)
	if cluster.err != nil && local.err == nil && (strings.HasPrefix(cs.SQL, "SELECT _ FROM") || strings.HasPrefix(cs.SQL, "SELECT * FROM")) &&
		strings.Contains(cs.SQL, "GROUP BY *, CROSSTAB") &&
		strings.Contains(cluster.err.Error(), "interface {} is nil, not string") {
		// known finding D15, matched narrowly
		fail("D15-wildcard-crosstab-without-fields-panics-on-leader", fmt.Sprintf("cluster err=%v\ncluster plan:\n%s", cluster.err, cluster.plan))
		return
	}
	if (cluster.err != nil) != (local.err != nil) {
		fail("cluster-exec-error-differs", fmt.Sprintf("cluster err=%v local err=%v\ncluster plan:\n%s", cluster.err, local.err, cluster.plan))
		return
	}
	if local.err != nil {
		c.Outcome("both-exec-fail")
		return
	}
	pushdown := strings.Contains(cluster.plan, "cluster flat")
	// clauses of the outer query only (a FROM-subquery has its own)
	outer := cs.SQL
	if i := strings.LastIndex(outer, ")"); i >= 0 && strings.Contains(outer, "FROM (") {
		outer = outer[strings.Index(outer, "FROM (")+6:]
		depth := 1
		for j := 0; j < len(outer); j++ {
			if outer[j] == '(' {
				depth++
			} else if outer[j] == ')' {
				depth--
				if depth == 0 {
					outer = outer[j:]
					break
				}
			}
		}
	}
	hasLimit := strings.Contains(outer, " LIMIT ")
	hasOrder := strings.Contains(outer, " ORDER BY ")
	hasOffset := strings.Contains(outer, " LIMIT 1, 2")
	if fmt.Sprint(cluster.fields) != fmt.Sprint(local.fields) {
		fail("fields-differ", fmt.Sprintf("cluster fields %v, local %v\ncluster plan:\n%s", cluster.fields, local.fields, cluster.plan))
		return
	}
	same := false
	switch {
	case hasLimit && !hasOrder:
		// any n rows of the unlimited local result
		unl, uerr := planner.Plan(cs.SQL[:strings.Index(cs.SQL, " LIMIT ")], env.opts(0, 0))
		if uerr != nil {
			return
		}
		full := map[string]int{}
		for _, r := range c11Exec(unl).rows {
			full[r]++
		}
		same = len(cluster.rows) == len(local.rows)
		d14 := strings.Contains(cs.SQL, "GROUP BY _,") && strings.Contains(cs.SQL, "CROSSTAB") && !pushdown
		fullStripped := map[string]int{}
		for r, n := range full {
			fullStripped[c11StripUnderscoreDim([]string{r})[0]] += n
		}
		sameStripped := same
		for _, r := range cluster.rows {
			full[r]--
			if full[r] < 0 {
				same = false
			}
			sr := c11StripUnderscoreDim([]string{r})[0]
			fullStripped[sr]--
			if fullStripped[sr] < 0 {
				sameStripped = false
			}
		}
		if !same && d14 && sameStripped {
			fail("D14-group-by-underscore-matches-crosstab-dim-by-prefix", fmt.Sprintf("cluster rows %v\nlocal rows   %v", cluster.rows, local.rows))
			return
		}
		if !same && hasOffset && pushdown && len(cluster.rows) <= len(local.rows) {
			fail("D13-pushdown-offset-applied-twice", fmt.Sprintf("cluster %v\nlocal %v", cluster.rows, local.rows))
			return
		}
	case hasOrder:
		// ordered: compare the rows in order, but let ties on the sort key permute
		same = fmt.Sprint(sortedCopy(cluster.rows)) == fmt.Sprint(sortedCopy(local.rows))
		if hasLimit {
			same = len(cluster.rows) == len(local.rows)
			// rows must come from the unlimited ordered result and carry the same sort keys in order
			if same {
				ck, lk := c11SortKeys(cluster, cs.SQL), c11SortKeys(local, cs.SQL)
				same = fmt.Sprint(ck) == fmt.Sprint(lk)
			}
		} else if same {
			same = fmt.Sprint(c11SortKeys(cluster, cs.SQL)) == fmt.Sprint(c11SortKeys(local, cs.SQL))
		}
		if !same && hasOffset && pushdown {
			fail("D13-pushdown-offset-applied-twice", fmt.Sprintf("cluster %v\nlocal %v", cluster.rows, local.rows))
			return
		}
	default:
		same = fmt.Sprint(sortedCopy(cluster.rows)) == fmt.Sprint(sortedCopy(local.rows))
	}
	if !same && strings.Contains(cs.SQL, "GROUP BY _,") && strings.Contains(cs.SQL, "CROSSTAB") && !pushdown {
		// known finding D14, matched narrowly: the leader's GROUP BY _ looks up the
		// dimension "_" in keys that carry "_crosstab", and bytemap.Get matches by
		// prefix; apart from that spurious dimension the rows must agree
		strip := c11StripUnderscoreDim
		if fmt.Sprint(sortedCopy(strip(cluster.rows))) == fmt.Sprint(sortedCopy(strip(local.rows))) {
			fail("D14-group-by-underscore-matches-crosstab-dim-by-prefix", fmt.Sprintf("cluster rows %v\nlocal rows   %v", cluster.rows, local.rows))
			return
		}
	}
	if !same && pushdown && strings.Contains(cs.SQL, "LEN(y) AS x") {
		// known finding D20, matched narrowly: the pinned goexpr dependency declares LEN one-to-one
		// (length.WalkOneToOneParams passes its source through), so pushdownAllowed takes an outer GROUP BY on the
		// alias x = LEN(y) for a grouping by the partition key y and pushes the query down whole. Signature: the
		// cluster rows are exactly what evaluating the whole query on each partition separately gives (every row
		// of the cluster result is a row of some partition's own answer; without LIMIT the multisets are equal).
		pool := map[string]int{}
		total := 0
		for pi := 0; pi < cs.N; pi++ {
			pp, perr := planner.Plan(cs.SQL, env.opts(pi, cs.N))
			if perr != nil {
				pool = nil
				break
			}
			for _, r := range c11Exec(pp).rows {
				pool[r]++
				total++
			}
		}
		if pool != nil {
			ok := hasLimit || len(cluster.rows) == total
			for _, r := range cluster.rows {
				pool[r]--
				if pool[r] < 0 {
					ok = false
				}
			}
			if ok {
				fail("D20-len-treated-as-one-to-one", fmt.Sprintf("cluster rows %v\nlocal rows   %v\ncluster plan:\n%s", cluster.rows, local.rows, cluster.plan))
				return
			}
		}
	}
	if !same {
		fail("cluster-plan-rows-differ", fmt.Sprintf("cluster rows %v\nlocal rows   %v\ncluster plan:\n%s\nlocal plan:\n%s", cluster.rows, local.rows, cluster.plan, local.plan))
		return
	}
	if pushdown && !hasLimit && cs.N > 1 {
		// pushed down whole only when every output group is confined to a single partition
		seen := map[string]int{}
		for pi, part := range perPartition {
			for _, id := range part {
				if prev, ok := seen[id]; ok && prev != pi%cs.N {
					fail("pushdown-group-spans-partitions", fmt.Sprintf("output group %s was produced by partitions %d and %d\ncluster plan:\n%s", id, prev, pi%cs.N, cluster.plan))
					return
				}
				seen[id] = pi % cs.N
			}
		}
	}
	if len(local.rows) > 0 && cs.N > 1 {
		c.Nontrivial(fmt.Sprintf("%s|%v|%d|%d", cs.SQL, cs.PartitionBy, cs.N, cs.RowSet))
	}
	if pushdown {
		c.Count("pushdown_plans", 1)
	} else {
		c.Count("non_pushdown_plans", 1)
	}
	c.Outcome(fmt.Sprintf("%v|%d", pushdown, len(local.rows)))
}

// c11StripUnderscoreDim removes the dimension "_" from the key part of rendered rows.
func c11StripUnderscoreDim(rows []string) []string {
	out := make([]string, len(rows))
	for i, r := range rows {
		parts := strings.SplitN(r, "|", 3)
		if len(parts) == 3 {
			var kept []string
			for _, kv := range strings.Split(parts[1], ";") {
				if kv != "" && !strings.HasPrefix(kv, "_=") {
					kept = append(kept, kv+";")
				}
			}
			parts[1] = strings.Join(kept, "")
		}
		out[i] = strings.Join(parts, "|")
	}
	return out
}

func c11SortKeys(r *c11Result, sql string) []string {
	ob := sql[strings.LastIndex(sql, " ORDER BY ")+10:]
	if i := strings.Index(ob, " LIMIT"); i >= 0 {
		ob = ob[:i]
	}
	var out []string
	for i, row := range r.rows {
		if strings.HasPrefix(ob, "_time") {
			out = append(out, strings.SplitN(r.keys[i], "|", 2)[0])
			continue
		}
		// "a DESC": the value of field a
		ai := -1
		for j, f := range r.fields {
			if f == "a" {
				ai = j
			}
		}
		vals := strings.Split(row[strings.LastIndex(row, "|")+1:], ",")
		if ai >= 0 && ai < len(vals) {
			out = append(out, vals[ai])
		} else {
			out = append(out, "?")
		}
	}
	return out
}

func init() {
	partitionings := [][]string{nil, {"x"}, {"y"}, {"x", "y"}}
	fw.Register(&fw.Prop{
		ID:          "C11",
		Level:       "translation_validation",
		Par:         16,
		Rule:        "programs: the full product SELECT {*, a, 'a, b', a + b AS t, AVG(a) AS av, _} × WHERE {none, x = 1, two string literals containing SQL keywords, IN-subquery} × GROUP BY {none, *, x, y, 'x, y', CONCAT expression, x with period(2s), _ with STRIDE(4s)} × CROSSTAB {none, CROSSTAB(y), CROSSTABT(y)} × HAVING {none, selected, unselected field} × ORDER {none, _time, a DESC} × LIMIT {none, 1, '1, 2'} × FROM {table, subquery, subquery with ORDER BY} (67 536 SQL texts; quick: every 12th) × partition keys {none, x, y, xy} × N in 1..6 × 3 row sets; each program is planned with and without QueryCluster by the real planner over mock tables; the cluster plan runs against partitions split by the murmur3 rule; oracle: same fields and rows as the local plan over the union (order under ORDER BY, any n rows for a bare LIMIT) and, for whole-query pushdown, output groups of different partitions disjoint; non-trivial = program with rows and N > 1",
		Assumptions: []string{"mock QueryCluster plans the pushed SQL per partition like DB.queryCluster does (fields of the first partition announced)", "programs the local planner rejects are counted, not validated"},
		Shards:      func(tier string) int { return 16 },
		Budget:      func(tier string) time.Duration { return 40 * time.Minute },
		Run: func(c *fw.Ctx) {
			stride := 12
			if c.Thorough() {
				stride = 1
			}
			progs := c11Programs()
			for pi := 0; pi < len(progs); pi += stride {
				if !c.Mine(int64(pi / stride)) {
					continue
				}
				if c.Expired() {
					c.Incomplete("time budget used up")
					return
				}
				c.Program(1)
				if pi%997 == 0 {
					c.Sample("program", progs[pi])
				}
				for _, pb := range partitionings {
					for n := 1; n <= 6; n++ {
						for rs := range c11RowSets() {
							c11Check(c, c11Case{SQL: progs[pi], RowSet: rs, PartitionBy: pb, N: n})
						}
					}
				}
				// a table that keeps only x (its keys live on several partitions unless it is partitioned by x); the
				// mock merges the rows of one kept key like the real table does
				if !strings.Contains(progs[pi], "FROM (") {
					for _, pb := range [][]string{nil, {"y"}, {"x"}} {
						for n := 2; n <= 4; n++ {
							for rs := 0; rs < 2; rs++ {
								c11Check(c, c11Case{SQL: progs[pi], RowSet: rs, PartitionBy: pb, N: n, TableGroupBy: []string{"x"}})
							}
						}
					}
				}
			}
			c.R.Bound = fmt.Sprintf("every %d-th of %d programs × 4 partitionings × N 1..6 × 3 row sets, plus a table keeping only x × 3 partitionings × N 2..4", stride, len(progs))
		},
		Replay: func(c *fw.Ctx, raw json.RawMessage) {
			var cs c11Case
			if json.Unmarshal(raw, &cs) != nil {
				return
			}
			c11Check(c, cs)
		},
	})
	_ = goexpr.Param
}
