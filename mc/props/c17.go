package props

import (
	"context"
	"encoding/json"
	"errors"
	"fmt"
	"sort"
	"strings"
	"sync"
	"time"

	"github.com/getlantern/zenodb"

	"verif/mc/dbdrv"
	"verif/mc/fw"
	rm "verif/mc/refmodel"
)

// C17 — coalesced queries each get the result they would get alone. The
// iteration intercept parks every table scan request; the harness then hands
// exactly the chosen batch to the real doProcessIterations.

type c17Case struct {
	Dataset   int   `json:"dataset"`
	Placement int   `json:"placement"` // 0 memory, 1 disk, 2 split, 3 altered (fields mx and b added after the file was written)
	Batch     []int `json:"batch"`     // indices into the query alphabet, in arrival order
	// Split > 0: the first Split queries form one batch, the rest a second one
	Split int `json:"split,omitempty"`
}

type c17Query struct {
	SQL     string
	Mem     bool
	FailAt  int // >0: the consumer's callback fails at this row
	Comment string
}

var errConsumer = errors.New("consumer gave up")

func c17Alphabet() []c17Query {
	return []c17Query{
		{SQL: "SELECT * FROM t17", Mem: true},
		{SQL: "SELECT a, ca FROM t17", Mem: true},
		{SQL: "SELECT mx, b FROM t17", Mem: true},
		{SQL: "SELECT ca, a, mx FROM t17", Mem: true},
		{SQL: "SELECT * FROM t17 LIMIT 1", Mem: true},
		{SQL: fmt.Sprintf("SELECT a FROM t17 ASOF '%s' UNTIL '%s'", ts(1), ts(4)), Mem: true},
		{SQL: fmt.Sprintf("SELECT a, av FROM t17 ASOF '%s' UNTIL '%s'", ts(0), ts(2)), Mem: true},
		{SQL: "SELECT PERCENTILE(p50, 90) AS p90, a FROM t17", Mem: true},
		{SQL: "SELECT * FROM t17", Mem: true, FailAt: 2, Comment: "consumer fails at row 2"},
		{SQL: "SELECT a, av FROM t17", Mem: false, Comment: "disk only"},
	}
}

func c17Def() dbdrv.TableDef {
	return dbdrv.TableDef{Name: "t17", Stream: "s", Retention: 100 * time.Second,
		SQL: "SELECT SUM(a) AS a, COUNT(a) AS ca, MAX(a) AS mx, SUM(b) AS b, AVG(a) AS av, PERCENTILE(a, 50, 0, 10, 0) AS p50 FROM s GROUP BY x, y, period(1s)"}
}

func c17Dataset(i int) []*rm.Pt {
	k1 := func() map[string]interface{} { return D("x", 1, "y", true) }
	k2 := func() map[string]interface{} { return D("x", 2, "y", false) }
	all := []*rm.Pt{
		{TS: 1 * sec, Dims: k1(), Vals: D("a", 2.0, "b", 0.5)},
		{TS: 2 * sec, Dims: k1(), Vals: D("a", 3.0)},
		{TS: 2 * sec, Dims: k2(), Vals: D("a", 7.0, "b", 1.5)},
		{TS: 4 * sec, Dims: k1(), Vals: D("a", 5.0)},
		{TS: 3 * sec, Dims: D("x", 3, "y", true), Vals: D("a", 1.0)},
		{TS: 5 * sec, Dims: k2(), Vals: D("a", 4.0, "b", 0.5)},
	}
	switch i {
	case 0:
		return all
	case 1:
		return all[:3]
	case 2:
		return []*rm.Pt{all[0], all[3], all[4]}
	default:
		return []*rm.Pt{all[5], all[2], all[1], all[0]}
	}
}

// c17DefOld is the table before fields mx and b were added.
func c17DefOld() dbdrv.TableDef {
	return dbdrv.TableDef{Name: "t17", Stream: "s", Retention: 100 * time.Second,
		SQL: "SELECT SUM(a) AS a, COUNT(a) AS ca, AVG(a) AS av, PERCENTILE(a, 50, 0, 10, 0) AS p50 FROM s GROUP BY x, y, period(1s)"}
}

func c17Open(c *fw.Ctx, ds, placement int) *dbdrv.DB {
	def := c17Def()
	if placement == 3 {
		def = c17DefOld()
	}
	db, err := dbdrv.Open(newDir(c), dbdrv.Config{Tables: []dbdrv.TableDef{def}})
	if err != nil {
		c.Incomplete("open: " + err.Error())
		return nil
	}
	pts := c17Dataset(ds)
	for i, p := range pts {
		if err := db.Insert("s", toPoint(p)); err != nil {
			c.Incomplete("insert: " + err.Error())
			db.Close()
			return nil
		}
		if (placement == 2 || placement == 3) && i == len(pts)/2-1 {
			db.FlushAll()
		}
		if placement == 3 && i == len(pts)/2-1 {
			// the file keeps its old header; rows inserted from now on carry the new fields, in memory
			if err := db.Alter(dbdrv.Config{Tables: []dbdrv.TableDef{c17Def()}}); err != nil {
				c.Incomplete("alter: " + err.Error())
				db.Close()
				return nil
			}
		}
	}
	if placement == 1 {
		db.FlushAll()
	}
	return db
}

type c17Outcome struct {
	Rows string
	Err  string
}

func c17RunOne(z *zenodb.DB, q c17Query) c17Outcome {
	n := 0
	res, err := dbdrv.QueryZ(z, context.Background(), q.SQL, q.Mem, func(i int, r *dbdrv.Row) (bool, error) {
		n++
		if q.FailAt > 0 && n >= q.FailAt {
			return false, errConsumer
		}
		return true, nil
	})
	out := c17Outcome{}
	if err != nil {
		out.Err = err.Error()
	}
	if res != nil {
		rows := res.Canon()
		if strings.Contains(q.SQL, "LIMIT") || q.FailAt > 0 {
			// which rows arrive before the cut depends on scan order: compare the count
			out.Rows = fmt.Sprintf("%v %d rows", res.Fields, len(rows))
		} else {
			out.Rows = fmt.Sprintf("%v\n%s", res.Fields, strings.Join(rows, "\n"))
		}
	}
	return out
}

// c17RunBatch issues the queries concurrently, parks their iterations and
// processes them as the given batches.
func c17RunBatch(db *dbdrv.DB, qs []c17Query, split int) ([]c17Outcome, string) {
	var mx sync.Mutex
	var parked []*zenodb.VerifIteration
	arrived := make(chan struct{}, len(qs))
	dbdrv.SetIntercept(func(it *zenodb.VerifIteration) bool {
		mx.Lock()
		parked = append(parked, it)
		mx.Unlock()
		arrived <- struct{}{}
		return true
	})
	defer dbdrv.SetIntercept(nil)
	outs := make([]c17Outcome, len(qs))
	var wg sync.WaitGroup
	// start the queries one after the other so that arrival order is the batch order
	for i, q := range qs {
		wg.Add(1)
		go func(i int, q c17Query) {
			defer wg.Done()
			outs[i] = c17RunOne(db.Z, q)
		}(i, q)
		select {
		case <-arrived:
		case <-time.After(20 * time.Second):
			return nil, "a query never reached the table scan"
		}
	}
	mx.Lock()
	batch := append([]*zenodb.VerifIteration(nil), parked...)
	mx.Unlock()
	if split > 0 && split < len(batch) {
		zenodb.VerifProcessIterations(batch[:split])
		zenodb.VerifProcessIterations(batch[split:])
	} else {
		zenodb.VerifProcessIterations(batch)
	}
	done := make(chan struct{})
	go func() { wg.Wait(); close(done) }()
	select {
	case <-done:
	case <-time.After(20 * time.Second):
		return nil, "a coalesced query never returned"
	}
	return outs, ""
}

type c17Env struct {
	db   *dbdrv.DB
	solo []c17Outcome
}

func c17Prepare(c *fw.Ctx, ds, placement int) *c17Env {
	db := c17Open(c, ds, placement)
	if db == nil {
		return nil
	}
	env := &c17Env{db: db}
	for _, q := range c17Alphabet() {
		env.solo = append(env.solo, c17RunOne(db.Z, q))
	}
	return env
}

func c17Check(c *fw.Ctx, env *c17Env, cs c17Case) {
	alpha := c17Alphabet()
	qs := make([]c17Query, len(cs.Batch))
	for i, b := range cs.Batch {
		qs[i] = alpha[b]
	}
	key0 := env.db.StateKey()
	// Go's map iteration order inside combinedOnValue is the one uncontrolled
	// choice: run each batch 4 times, all runs must agree with the solo results
	for rep := 0; rep < 4; rep++ {
		c.Eval(1)
		outs, msg := c17RunBatch(env.db, qs, cs.Split)
		if msg != "" {
			c.Violate("C17", "coalesced-query-hangs", msg, cs)
			return
		}
		for i, b := range cs.Batch {
			solo := env.solo[b]
			if outs[i] != solo {
				key := "coalesced-result-differs"
				hasFail, hasDisk := false, false
				for _, bb := range cs.Batch {
					if alpha[bb].FailAt > 0 {
						hasFail = true
					}
					if !alpha[bb].Mem {
						hasDisk = true
					}
				}
				if outs[i].Err != "" && solo.Err == "" && hasFail {
					key = "one-consumers-error-fails-batch-mates"
				} else if !alpha[b].Mem && hasDisk && outs[i].Err == solo.Err {
					key = "disk-only-query-sees-memstore-when-coalesced"
				}
				c.Violate("C17", key, fmt.Sprintf("batch %v (split %d) on dataset %d placement %d, query %d %q:\ncoalesced: err=%q %s\nalone:     err=%q %s",
					cs.Batch, cs.Split, cs.Dataset, cs.Placement, b, alpha[b].SQL, outs[i].Err, outs[i].Rows, solo.Err, solo.Rows), cs)
				return
			}
		}
	}
	if env.db.StateKey() != key0 {
		c.Violate("C17", "coalesced-scan-changed-stored-bytes", fmt.Sprintf("batch %v changed the stored bytes", cs.Batch), cs)
	}
	c.Outcome(fmt.Sprint(cs.Batch))
}

func combos(n, k int) [][]int {
	var out [][]int
	var rec func(start int, cur []int)
	rec = func(start int, cur []int) {
		if len(cur) == k {
			out = append(out, append([]int(nil), cur...))
			return
		}
		for i := start; i < n; i++ {
			rec(i+1, append(cur, i))
		}
	}
	rec(0, nil)
	return out
}

func perms(a []int) [][]int {
	if len(a) <= 1 {
		return [][]int{append([]int(nil), a...)}
	}
	var out [][]int
	for i := range a {
		rest := append(append([]int(nil), a[:i]...), a[i+1:]...)
		for _, p := range perms(rest) {
			out = append(out, append([]int{a[i]}, p...))
		}
	}
	return out
}

func init() {
	fw.Register(&fw.Prop{
		ID:          "C17",
		Level:       "model_checking",
		NoThreads:   true,
		Rule:        "4 datasets × {memory, disk, split, altered (fields mx and b added after the file was written, later rows in memory)} × all batches of 2 and 3 queries in every arrival order, all of 4 in one order, and the full 8- and 10-query batches (quick), plus every split of the size-4 batches into two successive batches and all batches of 5 (thorough), from a 10-query alphabet (SELECT *, disjoint and overlapping field subsets in different orders, LIMIT 1, ASOF/UNTIL inside the data and ending before the newest period, PERCENTILE wrap, a consumer failing at row 2, a disk-only query); batch composition is decided by the harness through the iteration intercept and processed by the real doProcessIterations; each batch runs 4× (map iteration order); oracle: every query's rows and error equal its solo run; non-trivial = every batch (>=2 coalesced queries)",
		Assumptions: []string{"for LIMIT and failing consumers the number of rows (not which rows) is compared, since scan order decides which arrive first"},
		Shards:      func(tier string) int { return 12 },
		Budget:      func(tier string) time.Duration { return 25 * time.Minute },
		Run: func(c *fw.Ctx) {
			n := len(c17Alphabet())
			var batches []c17Case
			for _, k := range []int{2, 3} {
				// every arrival order (the order in which iterations are queued is theirs to be fed in)
				for _, b := range combos(n, k) {
					for _, p := range perms(b) {
						batches = append(batches, c17Case{Batch: p})
					}
				}
			}
			for _, b := range combos(n, 4) {
				batches = append(batches, c17Case{Batch: b})
				if !c.Thorough() {
					continue
				}
				for s := 1; s < 4; s++ {
					batches = append(batches, c17Case{Batch: b, Split: s})
				}
			}
			batches = append(batches, c17Case{Batch: []int{0, 1, 2, 3, 4, 5, 6, 7}}, c17Case{Batch: []int{0, 1, 2, 3, 4, 5, 6, 7, 8, 9}}, c17Case{Batch: []int{9, 8, 7, 6, 5, 4, 3, 2, 1, 0}})
			if c.Thorough() {
				for _, b := range combos(n, 5) {
					batches = append(batches, c17Case{Batch: b})
				}
			}
			var idx int64
			for ds := 0; ds < 4; ds++ {
				for pl := 0; pl < 4; pl++ {
					idx++
					if !c.Mine(idx) {
						continue
					}
					env := c17Prepare(c, ds, pl)
					if env == nil {
						return
					}
					for _, b := range batches {
						if c.Expired() {
							c.Incomplete("time budget used up")
							env.db.Close()
							return
						}
						cs := b
						cs.Dataset, cs.Placement = ds, pl
						c.Trace(1)
						c.Transition(int64(len(cs.Batch)))
						c.State(fmt.Sprint(cs))
						c.Nontrivial(fmt.Sprint(cs))
						if len(cs.Batch) == 3 {
							var sqls []string
							for _, bi := range cs.Batch {
								sqls = append(sqls, c17Alphabet()[bi].SQL)
							}
							c.Sample("batch3", map[string]interface{}{"dataset": ds, "placement": pl, "queries": sqls})
						}
						c17Check(c, env, cs)
					}
					env.db.Close()
				}
			}
			c.R.Bound = "ordered batches of 2 and 3, 4-sets, 8- and 10-query batches (quick) / + splits of the 4-sets and 5-sets (thorough)"
		},
		Replay: func(c *fw.Ctx, raw json.RawMessage) {
			var cs c17Case
			if json.Unmarshal(raw, &cs) != nil {
				return
			}
			env := c17Prepare(c, cs.Dataset, cs.Placement)
			if env == nil {
				return
			}
			defer env.db.Close()
			c17Check(c, env, cs)
		},
	})
	_ = sort.Ints
}
