// Package props holds one file per property: alphabet, bound and oracle.
package props
