package props

import (
	"encoding/json"
	"fmt"
	"strings"
	"time"

	"verif/mc/cluster"
	"verif/mc/dbdrv"
	"verif/mc/fw"
	rm "verif/mc/refmodel"
)

// C12 — replication is exactly-once per partition across restarts and
// reconnects. Layer 1: direct fault-sequence exploration on the
// implementation (Deviations: the base schedule plus every placement of up to
// d fault events at every position).

type c12Fault struct {
	Pos  int    `json:"pos"`  // before base insert number Pos (len(base) = after the last)
	Kind string `json:"kind"` // see c12Kinds
	F    int    `json:"f"`    // follower index
}

type c12Case struct {
	Leaders int        `json:"leaders"`
	Red     int        `json:"redundancy"`
	Inserts int        `json:"inserts"`
	Faults  []c12Fault `json:"faults"`
	// LateTB: the cluster starts with table ta only; the fault "add-tb" adds tb (other partition key) to every node
	// while the followers are already following
	LateTB bool `json:"late_tb,omitempty"`
	// PreFlushed: a non-initial start state - one point has been delivered and flushed by every table of every
	// follower before the schedule begins, so every table has a stored offset
	PreFlushed bool `json:"pre_flushed,omitempty"`
}

// fault alphabet
var c12Kinds = []string{"flush-ta", "flush-all", "stop-start", "crash", "cut", "reconnect", "gate", "ungate", "restart-leader", "snapshot", "restore"}

func c12Tables() []dbdrv.TableDef {
	return []dbdrv.TableDef{
		{Name: "ta", Stream: "s", Retention: 100 * time.Second, PartitionBy: []string{"x"},
			SQL: "SELECT SUM(a) AS a, COUNT(a) AS ca FROM s GROUP BY x, y, period(1s)"},
		{Name: "tb", Stream: "s", Retention: 100 * time.Second, PartitionBy: []string{"y"},
			SQL: "SELECT SUM(a) AS a, COUNT(a) AS ca FROM s WHERE r = 'A' GROUP BY x, y, period(1s)"},
	}
}

// base points: routed to both partitions of both tables (x and y vary), one filtered by tb's WHERE
func c12Points() []dbdrv.Point {
	mk := func(i int, x int, y string, r string) dbdrv.Point {
		return dbdrv.Point{TS: int64(1+i%2)*sec - sec/2, Dims: map[string]interface{}{"x": x, "y": y, "r": r}, Vals: map[string]interface{}{"a": float64(int(1) << uint(i))}}
	}
	return []dbdrv.Point{mk(0, 1, "a", "A"), mk(1, 2, "b", "A"), mk(2, 3, "c", "B"), mk(3, 4, "d", "A"), mk(4, 5, "e", "A"), mk(5, 6, "f", "A")}
}

func c12Run(c *fw.Ctx, cs c12Case) {
	base := newDir(c)
	defer removeDir(base)
	tables := c12Tables()
	allTables := tables
	tbAdded := !cs.LateTB
	if cs.LateTB {
		tables = tables[:1]
	}
	cl, err := cluster.Start(base+"/cluster", cluster.Config{Tables: append([]dbdrv.TableDef(nil), tables...), NumPartitions: 2, Leaders: cs.Leaders, Redundancy: cs.Red})
	if err != nil {
		c.Incomplete("cluster start: " + err.Error())
		return
	}
	defer cl.Close()
	var stTables []dbdrv.TableDef
	for _, t := range tables {
		t.PartitionBy = nil
		stTables = append(stTables, t)
	}
	sdb, err := dbdrv.Open(base+"/standalone", dbdrv.Config{Tables: stTables})
	if err != nil {
		c.Incomplete("standalone open: " + err.Error())
		return
	}
	defer sdb.Close()
	pts := c12Points()[:cs.Inserts]
	if cs.PreFlushed {
		pre := dbdrv.Point{TS: sec / 2, Dims: map[string]interface{}{"x": 9, "y": "z", "r": "A"}, Vals: map[string]interface{}{"a": 4096.0}}
		pre2 := dbdrv.Point{TS: sec / 2, Dims: map[string]interface{}{"x": 8, "y": "y", "r": "A"}, Vals: map[string]interface{}{"a": 8192.0}}
		for _, p := range []dbdrv.Point{pre, pre2} {
			if err := cl.Insert(0, "s", p); err != nil {
				c.Incomplete("cluster insert: " + err.Error())
				return
			}
			if err := sdb.Insert("s", p); err != nil {
				c.Incomplete("standalone insert: " + err.Error())
				return
			}
		}
		if !cl.Quiesce() {
			c.Incomplete("quiescence timeout in the start state")
			return
		}
		for _, f := range cl.Followers {
			f.Flush("")
		}
		if !cl.Quiesce() {
			c.Incomplete("quiescence timeout in the start state")
			return
		}
	}
	images := map[int]string{}
	harnessFail := ""
	addTB := func() {
		if tbAdded {
			return
		}
		tbAdded = true
		if err := cl.AddTable(allTables[1]); err != nil {
			harnessFail = "add table: " + err.Error()
			return
		}
		var st []dbdrv.TableDef
		for _, t := range allTables {
			t.PartitionBy = nil
			st = append(st, t)
		}
		if err := sdb.Alter(dbdrv.Config{Tables: st}); err != nil {
			harnessFail = "standalone add table: " + err.Error()
		}
	}
	apply := func(ft c12Fault) {
		if ft.Kind == "add-tb" {
			addTB()
			c.Transition(1)
			if harnessFail == "" && !cl.Quiesce() {
				harnessFail = "quiescence timeout after add-tb"
			}
			return
		}
		if ft.F >= len(cl.Followers) {
			return
		}
		f := cl.Followers[ft.F]
		switch ft.Kind {
		case "flush-ta":
			if f.Up {
				f.Flush("ta")
			}
		case "flush-all":
			if f.Up {
				f.Flush("")
			}
		case "stop-start":
			if f.Up {
				f.Stop()
			}
			if err := f.Open(); err != nil {
				harnessFail = "follower start: " + err.Error()
			}
		case "crash":
			// kill -9 now: what is on disk at this instant is what the restarted follower finds
			img := fmt.Sprintf("%s/img-crash-%d-%d", base, ft.F, ft.Pos)
			if err := f.Snapshot(img); err != nil {
				harnessFail = "snapshot: " + err.Error()
				return
			}
			if err := f.CrashRestartFrom(img); err != nil {
				harnessFail = "crash restart: " + err.Error()
			}
		case "snapshot":
			img := fmt.Sprintf("%s/img-%d", base, ft.F)
			removeDir(img)
			if err := f.Snapshot(img); err != nil {
				harnessFail = "snapshot: " + err.Error()
				return
			}
			images[ft.F] = img
		case "restore":
			if img, ok := images[ft.F]; ok {
				if err := f.CrashRestartFrom(img); err != nil {
					harnessFail = "restore: " + err.Error()
				}
			}
		case "cut":
			for l := range cl.Leaders {
				f.Cut(l)
			}
		case "reconnect":
			for l := range cl.Leaders {
				if f.Up && f.IsCut(l) {
					f.Reconnect(l)
				}
			}
		case "gate":
			for l := range cl.Leaders {
				f.SetEager(l, false)
			}
		case "ungate":
			for l := range cl.Leaders {
				f.SetEager(l, true)
			}
		case "restart-leader":
			l := cl.Leaders[ft.F%len(cl.Leaders)]
			if err := l.Restart(); err != nil {
				harnessFail = "leader restart: " + err.Error()
				return
			}
			// followers notice the broken stream and follow again (server.followSource's retry loop)
			for _, fo := range cl.Followers {
				if fo.Up {
					fo.Reconnect(l.ID)
				}
			}
		}
		c.Transition(1)
		if !cl.Quiesce() {
			harnessFail = "quiescence timeout after " + ft.Kind
		}
	}
	for pos := 0; pos <= len(pts); pos++ {
		for _, ft := range cs.Faults {
			if ft.Pos == pos && harnessFail == "" {
				apply(ft)
			}
		}
		if harnessFail != "" {
			c.Incomplete(harnessFail + fmt.Sprintf(" (case %+v); %s", cs, cl.DebugState()))
			return
		}
		if pos < len(pts) {
			if err := cl.Insert(pos%cs.Leaders, "s", pts[pos]); err != nil {
				c.Incomplete("cluster insert: " + err.Error())
				return
			}
			if err := sdb.Insert("s", pts[pos]); err != nil {
				c.Incomplete("standalone insert: " + err.Error())
				return
			}
			c.Transition(1)
			if !cl.Quiesce() {
				c.Incomplete(fmt.Sprintf("quiescence timeout after insert %d (case %+v); %s", pos, cs, cl.DebugState()))
				return
			}
		}
	}
	// heal: everything up, connected, ungated, caught up
	for _, f := range cl.Followers {
		if !f.Up {
			if err := f.Open(); err != nil {
				c.Incomplete("heal: " + err.Error())
				return
			}
		}
		for l := range cl.Leaders {
			if f.IsCut(l) {
				f.Reconnect(l)
			}
			f.SetEager(l, true)
		}
	}
	addTB()
	if harnessFail != "" {
		c.Incomplete(harnessFail + fmt.Sprintf(" (case %+v)", cs))
		return
	}
	if !cl.Quiesce() {
		c.Incomplete(fmt.Sprintf("quiescence timeout after healing (case %+v); %s", cs, cl.DebugState()))
		return
	}
	cl.SetClock(sdb.Now)
	describe := func() string {
		var fs []string
		for _, ft := range cs.Faults {
			fs = append(fs, fmt.Sprintf("%s(F%d)@%d", ft.Kind, ft.F, ft.Pos))
		}
		late := ""
		if cs.LateTB {
			late = " (cluster started with ta only)"
		}
		if cs.PreFlushed {
			late += " (start state: two points delivered and flushed by every table)"
		}
		return fmt.Sprintf("leaders=%d followers/partition=%d inserts=%d faults [%s]%s", cs.Leaders, cs.Red, cs.Inserts, strings.Join(fs, " "), late)
	}
	for _, tn := range []string{"ta", "tb"} {
		st, err := sdb.Query("SELECT * FROM "+tn, true)
		if err != nil {
			c.Incomplete("standalone query: " + err.Error())
			return
		}
		want := map[string][2]float64{}
		for _, r := range st.Rows {
			want[fmt.Sprintf("%d|%s", r.TS, rm.KeyString(r.Key))] = [2]float64{r.Vals[fieldIdx(st, "_points")], r.Vals[fieldIdx(st, "a")]}
		}
		got := map[string][2]float64{}
		byPartition := map[int]string{}
		detail := []string{}
		for _, f := range cl.Followers {
			fr, err := f.Query("SELECT * FROM "+tn, true)
			if err != nil {
				c.Violate("C12", "follower-query-error", fmt.Sprintf("%s: follower %d.%d: %v", describe(), f.Partition, f.ID, err), cs)
				return
			}
			canon := fmt.Sprint(fr.Canon())
			detail = append(detail, fmt.Sprintf("follower %d.%d: %s", f.Partition, f.ID, canon))
			if prev, ok := byPartition[f.Partition]; ok {
				if prev != canon {
					c.Violate("C12", "redundant-followers-diverge", fmt.Sprintf("%s: table %s partition %d:\n%s\nvs\n%s", describe(), tn, f.Partition, prev, canon), cs)
					return
				}
				continue
			}
			byPartition[f.Partition] = canon
			for _, r := range fr.Rows {
				k := fmt.Sprintf("%d|%s", r.TS, rm.KeyString(r.Key))
				g := got[k]
				g[0] += r.Vals[fieldIdx(fr, "_points")]
				g[1] += r.Vals[fieldIdx(fr, "a")]
				got[k] = g
			}
		}
		if fmt.Sprint(want) != fmt.Sprint(got) {
			key := "points-lost"
			for k, g := range got {
				if g[0] > want[k][0] {
					key = "points-duplicated"
				}
			}
			c.Violate("C12", key, fmt.Sprintf("%s: table %s after healing: summed over partitions (points, a) per row\n got  %v\n want %v\n%s\n%s", describe(), tn, got, want, strings.Join(detail, "\n"), cl.DebugState()), cs)
			return
		}
		for l := 0; l < cs.Leaders; l++ {
			q := fmt.Sprintf("SELECT a, ca FROM %s GROUP BY x", tn)
			lw, err1 := sdb.Query(q, true)
			lg, err2 := cl.QueryLeader(l, q, true)
			if err1 != nil || err2 != nil || fmt.Sprint(lw.Canon()) != fmt.Sprint(lg.Canon()) {
				c.Violate("C12", "cluster-query-differs-after-heal", fmt.Sprintf("%s: %s on leader %d: cluster %v (err %v), standalone %v (err %v)", describe(), q, l, canonOf(lg), err2, canonOf(lw), err1), cs)
				return
			}
		}
	}
	c.Outcome(describe())
}

func canonOf(r *dbdrv.Result) []string {
	if r == nil {
		return nil
	}
	return r.Canon()
}

func c12Enabled(seq []c12Fault) bool {
	// enabledness: reconnect only after a cut, ungate only after a gate, restore only after a snapshot (same follower)
	cut, gated, snap := map[int]bool{}, map[int]bool{}, map[int]bool{}
	for _, ft := range seq {
		switch ft.Kind {
		case "cut":
			if cut[ft.F] {
				return false
			}
			cut[ft.F] = true
		case "reconnect":
			if !cut[ft.F] {
				return false
			}
			cut[ft.F] = false
		case "gate":
			if gated[ft.F] {
				return false
			}
			gated[ft.F] = true
		case "ungate":
			if !gated[ft.F] {
				return false
			}
			gated[ft.F] = false
		case "snapshot":
			snap[ft.F] = true
		case "restore":
			if !snap[ft.F] {
				return false
			}
		case "stop-start", "crash":
			cut[ft.F] = false
			gated[ft.F] = false
		}
	}
	return true
}

func init() {
	fw.Register(&fw.Prop{
		ID:          "C12",
		Level:       "model_checking",
		NoThreads:   true,
		Pre:         c12RunTLC,
		Rule:        "in-process cluster (1-2 leaders, 2 partitions, 1-2 followers per partition), two tables on one stream with different partition keys (ta by x; tb by y with a WHERE) so that per-table offsets on a follower diverge; base schedule of 3 (quick) / 4 (thorough) inserts delivered eagerly plus every placement of <=2 (quick) / <=3 on the focus follower (thorough) fault events {flush ta only, flush all, clean stop/start, crash (restart from the directory image of that instant), cut, reconnect, gate (delay), ungate, restart leader, snapshot, restore (restart from the older image)} at every position, from the empty cluster and (1 leader, 1 follower per partition) from a state in which every table of every follower already has a stored offset, plus the same with tb added to every node while the followers are already following (late subscription) at every position, alone and with every single fault before or after it, enabledness respected; every event runs to exact quiescence; at the end all nodes are healed and caught up; oracle: per table the rows summed over partitions equal a standalone DB fed the same points (no point lost, none applied twice), redundant followers identical, leader queries equal standalone; non-trivial = schedule with a fault after the first insert",
		Assumptions: []string{"reconnect policy of server.followSource re-implemented in the cluster driver (same Follow request, EarliestOffset advanced to the last inserted entry)", "a crash image is taken at quiescence (no kill instants inside a flush; those are C02's subject)"},
		Shards: func(tier string) int {
			if tier == "thorough" {
				return 32 // short-lived workers: every closed zenodb instance leaves goroutines and buffers behind
			}
			return 16
		},
		Budget: func(tier string) time.Duration {
			if tier == "thorough" {
				return 50 * time.Minute
			}
			return 5 * time.Minute
		},
		Run: func(c *fw.Ctx) {
			inserts := 3
			if c.Thorough() {
				inserts = 4
			}
			type cfg struct{ leaders, red int }
			cfgs := []cfg{{1, 1}}
			var single []c12Fault
			followers := []int{0, 1}
			for pos := 0; pos <= inserts; pos++ {
				for _, k := range c12Kinds {
					for _, f := range followers {
						if k == "restart-leader" && f > 0 {
							continue
						}
						single = append(single, c12Fault{pos, k, f})
					}
				}
			}
			var seqs [][]c12Fault
			seqs = append(seqs, nil)
			for _, a := range single {
				seqs = append(seqs, []c12Fault{a})
			}
			for i, a := range single {
				for j, b := range single {
					if b.Pos < a.Pos || (b.Pos == a.Pos && j <= i && !(a.Kind == "cut" || a.Kind == "gate" || a.Kind == "snapshot")) {
						continue
					}
					if a.F != b.F && a.Kind != "restart-leader" && b.Kind != "restart-leader" && !c.Thorough() {
						continue // quick: both faults on one follower (or the leader)
					}
					seqs = append(seqs, []c12Fault{a, b})
				}
			}
			var idx int64
			preFlushed := false
			run := func(cf cfg, seq []c12Fault) bool {
				if !c12Enabled(seq) {
					return true
				}
				idx++
				if !c.Mine(idx) {
					return true
				}
				if c.Expired() {
					c.Incomplete("time budget used up")
					return false
				}
				cs := c12Case{Leaders: cf.leaders, Red: cf.red, Inserts: inserts, Faults: seq, PreFlushed: preFlushed}
				c.Eval(1)
				c.Trace(1)
				c.State(fmt.Sprint(cs))
				if preFlushed {
					c.Nontrivial(fmt.Sprint(cs))
					if len(seq) == 2 {
						c.Sample("pre-flushed", cs)
					}
				}
				for _, ft := range seq {
					if ft.Pos > 0 {
						c.Nontrivial(fmt.Sprint(cs))
					}
				}
				if len(seq) == 2 {
					c.Sample("two-faults", cs)
				}
				c12Run(c, cs)
				return true
			}
			for _, seq := range seqs {
				if !run(cfgs[0], seq) {
					return
				}
			}
			// the same schedules from a non-initial state in which every table already has a stored offset
			preFlushed = true
			for _, seq := range seqs {
				if len(seq) == 0 {
					continue
				}
				if !run(cfgs[0], seq) {
					return
				}
			}
			preFlushed = false
			// other configurations: single faults (quick) / pairs on the focus follower (thorough)
			for _, cf := range []cfg{{2, 1}, {1, 2}, {2, 2}} {
				for _, seq := range seqs {
					if len(seq) > 1 && !c.Thorough() {
						continue
					}
					if len(seq) == 2 && (seq[0].F != 0 || seq[1].F != 0) {
						continue
					}
					if !run(cf, seq) {
						return
					}
				}
			}
			// a table with another partition key added while the followers are already following: at every position,
			// alone and combined with every single fault before or after it
			lateRun := func(cf cfg, seq []c12Fault) bool {
				if !c12Enabled(seq) {
					return true
				}
				idx++
				if !c.Mine(idx) {
					return true
				}
				if c.Expired() {
					c.Incomplete("time budget used up")
					return false
				}
				cs := c12Case{Leaders: cf.leaders, Red: cf.red, Inserts: inserts, Faults: seq, LateTB: true}
				c.Eval(1)
				c.Trace(1)
				c.State(fmt.Sprint(cs))
				c.Nontrivial(fmt.Sprint(cs))
				c.Sample("late-table", cs)
				c12Run(c, cs)
				return true
			}
			for pos := 0; pos <= inserts; pos++ {
				add := c12Fault{pos, "add-tb", 0}
				for _, cf := range append([]cfg{cfgs[0]}, cfg{2, 1}, cfg{1, 2}) {
					if !lateRun(cf, []c12Fault{add}) {
						return
					}
				}
				for _, o := range single {
					var seq []c12Fault
					if o.Pos < pos {
						seq = []c12Fault{o, add}
					} else {
						seq = []c12Fault{add, o}
					}
					if !lateRun(cfgs[0], seq) {
						return
					}
					if o.Pos == pos {
						if !lateRun(cfgs[0], []c12Fault{o, add}) {
							return
						}
					}
				}
			}
			// layer 2: replay of every path of the TLA+ model
			c12ReplayModel(c)
			c.R.Bound = fmt.Sprintf("%d inserts; <=2 faults at every position (1 leader, 1 follower/partition); single faults (quick) / focus-follower pairs (thorough) for the other configurations", inserts)
		},
		Replay: func(c *fw.Ctx, raw json.RawMessage) {
			var cs c12Case
			if json.Unmarshal(raw, &cs) != nil {
				return
			}
			c12Run(c, cs)
		},
	})
}
