package props

import (
	"context"
	"encoding/json"
	"errors"
	"fmt"
	"strings"
	"time"

	"verif/mc/dbdrv"
	"verif/mc/fw"
	rm "verif/mc/refmodel"
)

// C04 — queries are read-only. Product of storage states × query alphabet ×
// probes; oracle: probes and the byte-level dump of the row stores are
// identical before and after each query, and probes still agree after the next
// flush.

type c04Case struct {
	Schema    int    `json:"schema"` // 0 = t1, 1 = tp
	Inserts   []int  `json:"inserts"`
	Placement int    `json:"placement"` // 0 memory, 1 disk, 2 split, 3 split + restart
	Query     string `json:"query"`     // "" = whole alphabet in sequence
	Second    string `json:"second,omitempty"`
	Mem       bool   `json:"mem"`
	// Abnormal: the query is made to end abnormally (consumer-error@k, deadline-expired, deadline-at-row-1)
	Abnormal string `json:"abnormal,omitempty"`
}

func ts(s float64) string {
	return dbdrv.Epoch.Add(time.Duration(s * float64(time.Second))).Format(time.RFC3339Nano)
}

func c04Queries(schema int) []string {
	if schema == 1 {
		return []string{
			"SELECT * FROM tp",
			"SELECT p50 FROM tp",
			"SELECT PERCENTILE(p50, 90) AS p90 FROM tp",
			"SELECT PERCENTILE(p50, 10) AS p10, a FROM tp GROUP BY x",
			"SELECT sa, a FROM tp",
			"SELECT sa FROM tp GROUP BY period(2s)",
			fmt.Sprintf("SELECT p50, sa FROM tp ASOF '%s' UNTIL '%s'", ts(1), ts(3)),
			"SELECT p50 FROM tp ASOF '-3s' UNTIL '-1s' GROUP BY _",
			"SELECT SHIFT(a, '-2s') AS s2, p50 FROM tp GROUP BY x",
			"SELECT p50 FROM tp GROUP BY CROSSTAB(y)",
			"SELECT a FROM tp HAVING p50 > 1",
			"SELECT * FROM tp GROUP BY _, period(3s)",
		}
	}
	return []string{
		"SELECT * FROM t1",
		"SELECT a FROM t1",
		"SELECT av, ca FROM t1",
		"SELECT a / ca AS r2 FROM t1",
		"SELECT b, a, _points FROM t1",
		"SELECT _ FROM t1",
		fmt.Sprintf("SELECT * FROM t1 ASOF '%s'", ts(1)),
		fmt.Sprintf("SELECT * FROM t1 ASOF '%s' UNTIL '%s'", ts(1), ts(3)),
		fmt.Sprintf("SELECT * FROM t1 ASOF '%s' UNTIL '%s'", ts(0), ts(2)),
		fmt.Sprintf("SELECT * FROM t1 ASOF '%s' UNTIL '%s'", ts(2), ts(2.5)),
		fmt.Sprintf("SELECT a FROM t1 ASOF '%s' UNTIL '%s'", ts(-3), ts(1)),
		fmt.Sprintf("SELECT a, av FROM t1 ASOF '%s' UNTIL '%s' GROUP BY x", ts(0.5), ts(3.5)),
		"SELECT * FROM t1 ASOF '-4s' UNTIL '-1s'",
		"SELECT * FROM t1 ASOF '-2500ms'",
		"SELECT a FROM t1 ASOF '-3s' UNTIL '-2s'",
		"SELECT av FROM t1 ASOF '-5s' UNTIL '-1s' GROUP BY y, period(2s)",
		"SELECT * FROM t1 GROUP BY x",
		"SELECT * FROM t1 GROUP BY y",
		"SELECT * FROM t1 GROUP BY _",
		"SELECT a, ratio FROM t1 GROUP BY y, x",
		"SELECT * FROM t1 GROUP BY period(2s)",
		"SELECT * FROM t1 GROUP BY x, period(2s)",
		"SELECT a FROM t1 GROUP BY period(3s)",
		"SELECT av, wa FROM t1 GROUP BY _, period(5s)",
		"SELECT a FROM t1 GROUP BY _, period(16s)",
		"SELECT a FROM t1 GROUP BY _, STRIDE(4s)",
		"SELECT a FROM t1 GROUP BY x, period(2s), STRIDE(4s)",
		"SELECT SHIFT(a, '-1s') AS sa, a FROM t1",
		"SELECT SHIFT(av, '-2s') AS sav FROM t1 GROUP BY x",
		"SELECT CROSSHIFT(a, '-2s', '1s') FROM t1",
		"SELECT CROSSHIFT(a, '-3s', '1s') AS ca3 FROM t1 GROUP BY _, period(2s)",
		"SELECT a FROM t1 GROUP BY x, CROSSTAB(y)",
		"SELECT a, av FROM t1 GROUP BY CROSSTABT(y)",
		"SELECT a FROM t1 GROUP BY CROSSTAB(x, y), period(2s)",
		"SELECT * FROM t1 HAVING a > 2",
		"SELECT a FROM t1 GROUP BY x HAVING ca > 1",
		"SELECT av FROM t1 HAVING mx - mn > 0",
		fmt.Sprintf("SELECT a FROM t1 ASOF '%s' UNTIL '%s' GROUP BY x HAVING a > 0", ts(1), ts(4)),
		"SELECT * FROM t1 WHERE x = 1",
		"SELECT a FROM t1 WHERE y = true GROUP BY x",
		"SELECT * FROM t1 WHERE x IN (SELECT x FROM t1 WHERE y = true)",
		"SELECT a FROM t1 WHERE x IN (SELECT x FROM t1 HAVING a > 2) GROUP BY y",
		"SELECT a FROM (SELECT * FROM t1 GROUP BY x)",
		"SELECT AVG(a) AS aa FROM (SELECT a, b FROM t1 GROUP BY y, x) GROUP BY y",
		fmt.Sprintf("SELECT a FROM (SELECT * FROM t1 ASOF '%s' UNTIL '%s' GROUP BY x) GROUP BY _", ts(1), ts(3)),
		"SELECT * FROM t1 ORDER BY a DESC LIMIT 2",
		"SELECT a FROM t1 GROUP BY x ORDER BY _time LIMIT 1, 1",
		fmt.Sprintf("SELECT mn, mx FROM t1 ASOF '%s' UNTIL '%s' GROUP BY period(2s)", ts(0), ts(5)),
	}
}

func c04Probes(schema int) []string {
	if schema == 1 {
		return []string{"SELECT * FROM tp", "SELECT p50, a FROM tp GROUP BY x"}
	}
	return []string{"SELECT * FROM t1", "SELECT a, av FROM t1 GROUP BY x"}
}

type c04Snap struct {
	probes []string
	key    string
}

func c04Snapshot(db *dbdrv.DB, schema int) (*c04Snap, error) {
	return c04SnapshotOrdered(db, schema, false)
}

// c04SnapshotOrdered runs the probes (probe p with the memstore at index 2p, without at 2p+1); reversed changes the
// order in which they are issued, not where their results are stored.
func c04SnapshotOrdered(db *dbdrv.DB, schema int, reversed bool) (*c04Snap, error) {
	s := &c04Snap{key: db.StateKey()}
	ps := c04Probes(schema)
	s.probes = make([]string, 2*len(ps))
	type slot struct {
		p   int
		mem bool
	}
	var order []slot
	for i := range ps {
		order = append(order, slot{i, true}, slot{i, false})
	}
	if reversed {
		for i, j := 0, len(order)-1; i < j; i, j = i+1, j-1 {
			order[i], order[j] = order[j], order[i]
		}
	}
	for _, o := range order {
		r, err := db.Query(ps[o.p], o.mem)
		if err != nil {
			return nil, fmt.Errorf("%s: %v", ps[o.p], err)
		}
		idx := 2 * o.p
		if !o.mem {
			idx++
		}
		s.probes[idx] = fmt.Sprintf("%s mem=%v\n%s", ps[o.p], o.mem, r.String())
	}
	return s, nil
}

func c04Build(c *fw.Ctx, cs c04Case) *dbdrv.DB {
	_, cfg, _ := c03Setup(cs.Schema, false)
	alpha := c03Alphabet()
	db, err := dbdrv.Open(newDir(c), cfg)
	if err != nil {
		c.Incomplete("open: " + err.Error())
		return nil
	}
	for i, e := range cs.Inserts {
		if err := db.Insert("s", toPoint(alpha[e])); err != nil {
			c.Incomplete("insert: " + err.Error())
			db.Close()
			return nil
		}
		c.Transition(1)
		if i == 0 && cs.Placement >= 2 {
			db.FlushAll()
			if cs.Placement == 3 {
				if err := db.Restart(); err != nil {
					c.Incomplete("restart: " + err.Error())
					db.Close()
					return nil
				}
			}
		}
	}
	if cs.Placement == 1 {
		db.FlushAll()
	}
	return db
}

// c04Run executes the case; with an empty Query it walks the whole alphabet on
// one instance (legitimate because the state is verified unchanged after each
// query), otherwise it runs just that query (and Second) and then checks the
// probes again after a flush.
func c04Run(c *fw.Ctx, cs c04Case) {
	db := c04Build(c, cs)
	if db == nil {
		return
	}
	defer func() {
		dir := db.Dir
		db.Close()
		removeDir(dir)
	}()
	if !c.State(db.StateKey()) && cs.Query == "" {
		return // this storage state has been explored already
	}
	before, err := c04Snapshot(db, cs.Schema)
	if err != nil {
		c.Violate("C04", "probe-error", err.Error(), cs)
		return
	}
	// The baseline is itself made of queries. A second, fresh instance of the same state answers the probes in the
	// opposite order (disk-only ones first): if a probe changed what a later probe returns, the two baselines differ.
	if db2 := c04Build(c, cs); db2 != nil {
		other, err := c04SnapshotOrdered(db2, cs.Schema, true)
		dir2 := db2.Dir
		db2.Close()
		removeDir(dir2)
		if err != nil {
			c.Violate("C04", "probe-error", err.Error(), cs)
			return
		}
		for i := range before.probes {
			if before.probes[i] != other.probes[i] {
				c.Violate("C04", "probe-depends-on-earlier-probes", fmt.Sprintf("the same probe on two fresh instances of the same state, issued after different earlier probes:\nissued after the memstore-inclusive probes: %s\nissued first: %s", before.probes[i], other.probes[i]), cs)
				return
			}
		}
	}
	queries := c04Queries(cs.Schema)
	mems := []bool{true, false}
	if cs.Query != "" {
		queries = []string{cs.Query}
		if cs.Second != "" {
			queries = append(queries, cs.Second)
		}
		mems = []bool{cs.Mem}
	}
	if cs.Abnormal != "" {
		queries = nil
	}
	for _, q := range queries {
		for _, mem := range mems {
			c.Eval(1)
			res, qerr := db.Query(q, mem)
			after, err := c04Snapshot(db, cs.Schema)
			if err != nil {
				c.Violate("C04", "probe-error", err.Error(), cs)
				return
			}
			one := cs
			one.Query, one.Mem = q, mem
			if after.key != before.key {
				c.Violate("C04", "query-changed-stored-bytes", fmt.Sprintf("after %q (includeMemStore=%v, err=%v) the decoded row stores differ:\nbefore %s\nafter  %s", q, mem, qerr, trunc(before.key, 1500), trunc(after.key, 1500)), one)
				return
			}
			for i := range before.probes {
				if before.probes[i] != after.probes[i] {
					c.Violate("C04", "query-changed-probe", fmt.Sprintf("after %q (includeMemStore=%v) probe changed:\nbefore %s\nafter  %s", q, mem, before.probes[i], after.probes[i]), one)
					return
				}
			}
			if qerr == nil && len(res.Rows) > 0 {
				c.Nontrivial(fmt.Sprintf("%v|%d|%s|%v", cs.Inserts, cs.Placement, q, mem))
			}
			if qerr != nil {
				c.Count("queries_refused", 1)
			}
			c.Outcome(fmt.Sprintf("%s|%v|%d", q, qerr, resLen(res)))
		}
	}
	// queries that end abnormally - the consumer gives up at row k, the deadline has passed before the scan starts or
	// passes while rows are delivered - are queries too: they must leave the stored data alone
	if cs.Query == "" || cs.Abnormal != "" {
		probeTable := "t1"
		if cs.Schema == 1 {
			probeTable = "tp"
		}
		abQueries := []string{"SELECT * FROM " + probeTable, "SELECT a FROM " + probeTable + " GROUP BY x"}
		abMems := []bool{true, false}
		abModes := []string{"consumer-error@1", "consumer-error@2", "deadline-expired", "deadline-at-row-1"}
		if cs.Abnormal != "" {
			abQueries, abMems, abModes = []string{cs.Query}, []bool{cs.Mem}, []string{cs.Abnormal}
		}
		for _, q := range abQueries {
			for _, mem := range abMems {
				for _, mode := range abModes {
					c.Eval(1)
					ctx, cancel := context.Background(), func() {}
					switch mode {
					case "deadline-expired":
						ctx, cancel = context.WithDeadline(ctx, time.Now().Add(-time.Second))
					case "deadline-at-row-1":
						ctx, cancel = context.WithTimeout(ctx, 30*time.Millisecond)
					}
					n := 0
					_, qerr := dbdrv.QueryZ(db.Z, ctx, q, mem, func(i int, r *dbdrv.Row) (bool, error) {
						n++
						switch {
						case mode == "consumer-error@1" && n >= 1, mode == "consumer-error@2" && n >= 2:
							return false, errors.New("consumer gave up")
						case mode == "deadline-at-row-1" && n == 1:
							time.Sleep(60 * time.Millisecond) // outlast the deadline while holding the scan
						}
						return true, nil
					})
					cancel()
					after, err := c04Snapshot(db, cs.Schema)
					if err != nil {
						c.Violate("C04", "probe-error", err.Error(), cs)
						return
					}
					one := cs
					one.Query, one.Mem, one.Abnormal = q, mem, mode
					if after.key != before.key {
						c.Violate("C04", "failed-query-changed-stored-bytes", fmt.Sprintf("after %q ending with %s (includeMemStore=%v, err=%v) the decoded row stores differ:\nbefore %s\nafter  %s", q, mode, mem, qerr, trunc(before.key, 1500), trunc(after.key, 1500)), one)
						return
					}
					for i := range before.probes {
						if before.probes[i] != after.probes[i] {
							c.Violate("C04", "failed-query-changed-probe", fmt.Sprintf("after %q ending with %s (includeMemStore=%v, err=%v) probe changed:\nbefore %s\nafter  %s", q, mode, mem, qerr, before.probes[i], after.probes[i]), one)
							return
						}
					}
					if qerr != nil {
						c.Nontrivial(fmt.Sprintf("%v|%d|%s|%v|%s", cs.Inserts, cs.Placement, q, mem, mode))
					}
					c.Outcome(fmt.Sprintf("%s|%s|%v", q, mode, qerr != nil))
				}
			}
		}
	}
	// the next flush must not surface anything either
	db.FlushAll()
	c.Transition(1)
	for i, p := range c04Probes(cs.Schema) {
		r, err := db.Query(p, true)
		if err != nil {
			c.Violate("C04", "probe-error", err.Error(), cs)
			return
		}
		want := before.probes[2*i]
		got := fmt.Sprintf("%s mem=%v\n%s", p, true, r.String())
		if got != want {
			c.Violate("C04", "probe-changed-after-flush", fmt.Sprintf("after the queries and a flush:\nbefore %s\nafter  %s", want, got), cs)
			return
		}
	}
}

func resLen(r *dbdrv.Result) int {
	if r == nil {
		return -1
	}
	return len(r.Rows)
}

func trunc(s string, n int) string {
	if len(s) > n {
		return s[:n] + "…"
	}
	return s
}

func c04Histories(thorough bool) [][]int {
	k := len(c03Alphabet())
	var out [][]int
	for i := 0; i < k; i++ {
		for j := 0; j < k; j++ {
			out = append(out, []int{i, j})
		}
	}
	triples := [][]int{{0, 1, 2}, {1, 3, 2}, {2, 0, 6}, {4, 1, 0}, {0, 5, 7}, {6, 0, 4}, {1, 7, 2}, {3, 1, 4}, {2, 4, 1}, {5, 0, 1}, {7, 2, 6}, {0, 2, 4}, {4, 2, 0}, {1, 1, 3}, {6, 6, 0}, {2, 7, 3}}
	if thorough {
		triples = nil
		for i := 0; i < k; i++ {
			for j := 0; j < k; j++ {
				for l := 0; l < k; l++ {
					triples = append(triples, []int{i, j, l})
				}
			}
		}
	}
	return append(out, triples...)
}

func init() {
	fw.Register(&fw.Prop{
		ID:          "C04",
		Level:       "model_checking",
		Rule:        "storage states = distinct VerifDump keys reached by insert histories (all pairs, plus 16 / all triples, over the C03 alphabet) × placements {memory, disk, split, split+restart}, schemas {t1, tp}; on each state the whole query alphabet (48 t1 queries / 12 tp queries: select lists, derived and PERCENTILE-wrapping fields, absolute/relative/unaligned ASOF/UNTIL incl. ranges ending before the newest period, GROUP BY subsets, period multiples, STRIDE, SHIFT, CROSSHIFT, CROSSTAB(T), HAVING, WHERE, IN- and FROM-subqueries, ORDER/LIMIT) × includeMemStore {true,false}; oracle: decoded file+memstore bytes and 2 probe queries (with and without memstore) identical after each query, the baseline probes identical to those of a second fresh instance that issues them in the opposite order, probes identical again after the next flush; on every state also 2 queries × includeMemStore × 4 abnormal endings (consumer error at row 1 / 2, deadline already expired, deadline passing while row 1 is delivered); thorough adds ordered pairs (Q1;Q2) on fresh instances; non-trivial = query that returned rows",
		Assumptions: []string{"walking the alphabet on one instance is sound because the byte-level state is verified unchanged after every query"},
		Shards: func(tier string) int {
			if tier == "thorough" {
				return 32 // short-lived workers: every closed zenodb instance leaves goroutines and buffers behind
			}
			return 16
		},
		Budget: func(tier string) time.Duration {
			if tier == "thorough" {
				return 40 * time.Minute
			}
			return 4 * time.Minute
		},
		Run: func(c *fw.Ctx) {
			var idx int64
			for schema := 0; schema < 2; schema++ {
				for _, h := range c04Histories(c.Thorough()) {
					for pl := 0; pl < 4; pl++ {
						idx++
						if !c.Mine(idx) {
							continue
						}
						if c.Expired() {
							c.Incomplete("time budget used up")
							return
						}
						cs := c04Case{Schema: schema, Inserts: h, Placement: pl}
						c.Trace(1)
						c.Sample(fmt.Sprintf("schema%d", schema), map[string]interface{}{"history": cs, "queries": c04Queries(schema)[:4]})
						c04Run(c, cs)
					}
				}
			}
			if c.Thorough() {
				// ordered pairs of queries on fresh instances of four representative states
				reps := []c04Case{{Schema: 0, Inserts: []int{0, 1, 2}, Placement: 0}, {Schema: 0, Inserts: []int{1, 3, 4}, Placement: 2}, {Schema: 0, Inserts: []int{2, 4, 6}, Placement: 3}, {Schema: 1, Inserts: []int{0, 1, 2}, Placement: 2}}
				for _, rep := range reps {
					qs := c04Queries(rep.Schema)
					for _, q1 := range qs {
						for _, q2 := range qs {
							idx++
							if !c.Mine(idx) {
								continue
							}
							if c.Expired() {
								c.Incomplete("time budget used up in query pairs")
								return
							}
							cs := rep
							cs.Query, cs.Second, cs.Mem = q1, q2, true
							c.Trace(1)
							c04Run(c, cs)
						}
					}
				}
			}
			c.R.Bound = "histories: all pairs + 16 triples (quick) / all triples + query pairs on 4 states (thorough)"
		},
		Replay: func(c *fw.Ctx, raw json.RawMessage) {
			var cs c04Case
			if json.Unmarshal(raw, &cs) != nil {
				return
			}
			c04Run(c, cs)
		},
	})
	_ = strings.Join
	_ = rm.FloatEq
}
