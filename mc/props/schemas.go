package props

import (
	"fmt"
	"os"
	"path/filepath"
	"sort"
	"strings"
	"sync/atomic"
	"time"

	"verif/mc/dbdrv"
	"verif/mc/fw"
	rm "verif/mc/refmodel"
)

const sec = int64(time.Second)

var dirSeq int64

// newDir returns a fresh data directory under the worker's scratch space.
func newDir(c *fw.Ctx) string {
	n := atomic.AddInt64(&dirSeq, 1)
	dir := filepath.Join(c.Scratch, fmt.Sprintf("d%d", n))
	os.MkdirAll(dir, 0755)
	return dir
}

func condYTrue(d map[string]interface{}) bool { v, ok := d["y"].(bool); return ok && v }
func condRA(d map[string]interface{}) bool    { v, ok := d["r"].(string); return ok && v == "A" }
func condRB(d map[string]interface{}) bool    { v, ok := d["r"].(string); return ok && v == "B" }

// Standard schema family S (DESIGN.md §3).
func tableT1() *rm.Table {
	sumA := rm.Agg{Kind: "SUM", Val: "a"}
	return &rm.Table{
		Name: "t1", Stream: "s", GroupBy: []string{"x", "y"}, Resolution: time.Second, Retention: 8 * time.Second,
		Fields: []rm.Field{
			{Name: "a", Expr: sumA},
			{Name: "ca", Expr: rm.Agg{Kind: "COUNT", Val: "a"}},
			{Name: "mn", Expr: rm.Agg{Kind: "MIN", Val: "a"}},
			{Name: "mx", Expr: rm.Agg{Kind: "MAX", Val: "a"}},
			{Name: "av", Expr: rm.Agg{Kind: "AVG", Val: "a"}},
			{Name: "wa", Expr: rm.Agg{Kind: "WAVG", Val: "a", W: "w"}},
			{Name: "ratio", Expr: rm.Bin{Op: "/", L: sumA, R: rm.Agg{Kind: "COUNT", Val: "a"}}},
			{Name: "lin", Expr: rm.Bin{Op: "+", L: sumA, R: rm.Bin{Op: "*", L: rm.Agg{Kind: "SUM", Val: "b"}, R: rm.Const(2)}}},
			{Name: "ay", Expr: rm.If{CondSQL: "y = true", Cond: condYTrue, X: sumA}},
			{Name: "bav", Expr: rm.Agg{Kind: "AVG", Val: "a", Bounded: true, Lo: 0, Hi: 2}},
			{Name: "b", Expr: rm.Agg{Kind: "SUM", Val: "b"}},
			// composite fields with an IF whose condition varies inside a group (r is not a group-by dimension): as
			// the left operand, as the right operand, and on both sides
			{Name: "ifl", Expr: rm.Bin{Op: "/", L: rm.If{CondSQL: "r = 'A'", Cond: condRA, X: sumA}, R: rm.Agg{Kind: "COUNT", Val: "a"}}},
			{Name: "ifr", Expr: rm.Bin{Op: "-", L: rm.Agg{Kind: "MAX", Val: "a"}, R: rm.If{CondSQL: "r = 'A'", Cond: condRA, X: sumA}}},
			{Name: "ifb", Expr: rm.Bin{Op: "*", L: rm.If{CondSQL: "r = 'B'", Cond: condRB, X: rm.Agg{Kind: "COUNT", Val: "a"}}, R: rm.If{CondSQL: "r = 'A'", Cond: condRA, X: rm.Agg{Kind: "MIN", Val: "a"}}}},
		},
	}
}

func tableT2() *rm.Table {
	return &rm.Table{
		Name: "t2", Stream: "s", GroupBy: []string{"x"}, Resolution: 2 * time.Second, Retention: 8 * time.Second,
		Where: &rm.Pred{SQL: "r = 'A'", Fn: condRA},
		Fields: []rm.Field{
			{Name: "a", Expr: rm.Agg{Kind: "SUM", Val: "a"}},
			{Name: "mx", Expr: rm.Agg{Kind: "MAX", Val: "a"}},
			{Name: "av", Expr: rm.Agg{Kind: "AVG", Val: "a"}},
		},
	}
}

// viewV1 is a view on t1 with its own WHERE and a coarser group-by; zenodb
// gives it t1's fields, stream and resolution.
func viewV1() (*rm.Table, dbdrv.TableDef) {
	t1 := tableT1()
	v := &rm.Table{Name: "v1", Stream: "s", GroupBy: []string{"x"}, Resolution: t1.Resolution, Retention: 8 * time.Second,
		Where: &rm.Pred{SQL: "r = 'A'", Fn: condRA}, Fields: t1.Fields}
	def := dbdrv.TableDef{Name: "v1", Stream: "s", View: true, Retention: v.Retention,
		SQL: "SELECT * FROM t1 WHERE r = 'A' GROUP BY x"}
	return v, def
}

func defOf(t *rm.Table) dbdrv.TableDef {
	return dbdrv.TableDef{Name: t.Name, Stream: t.Stream, SQL: t.SQLText(), Retention: t.Retention}
}

func toPoint(p *rm.Pt) dbdrv.Point { return dbdrv.Point{TS: p.TS, Dims: p.Dims, Vals: p.Vals} }

func D(kv ...interface{}) map[string]interface{} {
	m := map[string]interface{}{}
	for i := 0; i+1 < len(kv); i += 2 {
		m[kv[i].(string)] = kv[i+1]
	}
	return m
}

// pointAlphabet is the C01 alphabet: every element is there because the code
// has a branch for it (see DESIGN.md §3).
func pointAlphabet() []*rm.Pt {
	return []*rm.Pt{
		0:  {TS: 1 * sec, Dims: D("x", 1, "y", true, "r", "A"), Vals: D("a", 2.0, "b", 0.5, "w", 2)},     // exact boundary
		1:  {TS: 1*sec + 1, Dims: D("x", 1, "y", true, "r", "A"), Vals: D("a", 3, "w", 2)},               // 1 ns past the boundary, int value
		2:  {TS: 3 * sec / 2, Dims: D("x", 1, "y", true, "r", "B"), Vals: D("a", 2.0)},                   // mid period, filtered by t2/v1
		3:  {TS: 2 * sec, Dims: D("x", 1, "y", false, "r", "A"), Vals: D("a", 3, "b", 0.5)},              // other y
		4:  {TS: 3 * sec, Dims: D("x", "1", "y", true, "r", "A"), Vals: D("a", 2.0)},                     // string-typed x
		5:  {TS: sec / 2, Dims: D("x", 1, "y", true, "r", "A"), Vals: D("a", 5.0, "w", 1)},               // older period (out of order after others)
		6:  {TS: 1 * sec, Dims: D("x", 2, "r", "A"), Vals: D("a", 2.0)},                                  // missing dim y
		7:  {TS: 1 * sec, Dims: D("y", true, "r", "A"), Vals: D("a", "str", "zz", 7.0)},                  // only an unselected value is numeric
		8:  {TS: 1 * sec, Dims: D("x", 1, "y", true, "r", "A"), Vals: D("a", "str")},                     // no usable value at all
		9:  {TS: 12 * sec, Dims: D("x", 1, "y", true, "r", "A"), Vals: D("a", 2.0)},                      // moves the clock: earlier periods expire
		10: {TS: 2 * sec, Dims: D("x", 1, "y", true, "r", "A"), Vals: D("a", -1.0, "b", 0.5)},            // outside BOUNDED, new MIN
		11: {TS: 1 * sec, Dims: D("x", 1, "y", true, "r", "A"), Vals: D("a", []int{1, 2, 4})},            // array value (D9)
		12: {TS: 5 * sec / 2, Dims: D("x", 2, "y", false, "r", "A"), Vals: D("b", 0.5, "w", 2)},          // a absent
		13: {TS: 4 * sec, Dims: D("x", 1, "y", true, "r", "A", "extra", "e"), Vals: D("a", 2.0, "w", 0)}, // extra dim, zero weight
	}
}

// compareRows compares a zenodb result with the model's expected rows for the
// given fields. Rows whose period lies outside (asOf, until] may be present or
// absent (a plain native scan streams stored series untouched) but must be
// correct when present. It returns "" when they agree.
func compareRows(res *dbdrv.Result, exp []rm.Row, fieldNames []string, asOf, until int64) string {
	// map result fields
	idx := make([]int, len(fieldNames))
	for i, n := range fieldNames {
		idx[i] = -1
		for j, rn := range res.Fields {
			if rn == n {
				idx[i] = j
			}
		}
		if idx[i] < 0 {
			return fmt.Sprintf("field %q missing from result fields %v", n, res.Fields)
		}
	}
	type k struct {
		ts  int64
		key string
	}
	got := map[k][]float64{}
	for _, r := range res.Rows {
		kk := k{r.TS, rm.KeyString(r.Key)}
		if _, dup := got[kk]; dup {
			return fmt.Sprintf("duplicate row for ts=%d key=%s", r.TS, kk.key)
		}
		vals := make([]float64, len(fieldNames))
		for i, j := range idx {
			vals[i] = r.Vals[j]
		}
		got[kk] = vals
	}
	var diffs []string
	seen := map[k]bool{}
	for _, e := range exp {
		kk := k{e.TS, e.Key}
		seen[kk] = true
		g, ok := got[kk]
		inWindow := e.TS > asOf && e.TS <= until
		if !ok {
			if inWindow {
				diffs = append(diffs, fmt.Sprintf("missing row ts=%d key=%s expected=%v", e.TS, e.Key, e.Vals))
			}
			continue
		}
		if e.TS <= asOf {
			// the period has left the retention window: retention may already have dropped some of its points
			// (the memstore side of a merge is truncated when it is read, the file side when it is next
			// rewritten), so its values are no longer determined; what retention may and may not do is C14's subject
			continue
		}
		for i := range fieldNames {
			if !rm.FloatEq(g[i], e.Vals[i]) {
				diffs = append(diffs, fmt.Sprintf("ts=%d key=%s field %s: got %v want %v", e.TS, e.Key, fieldNames[i], g[i], e.Vals[i]))
			}
		}
	}
	for kk, g := range got {
		if !seen[kk] {
			diffs = append(diffs, fmt.Sprintf("unexpected row ts=%d key=%s vals=%v", kk.ts, kk.key, g))
		}
	}
	sort.Strings(diffs)
	if len(diffs) > 12 {
		diffs = append(diffs[:12], fmt.Sprintf("… %d more", len(diffs)-12))
	}
	return strings.Join(diffs, "\n")
}

func fieldNames(fs []rm.Field) []string {
	var out []string
	for _, f := range fs {
		out = append(out, f.Name)
	}
	return out
}

// seqFromIndex decodes the idx-th sequence of length n over an alphabet of
// size k (most significant digit first).
func seqFromIndex(idx int64, k, n int) []int {
	out := make([]int, n)
	for i := n - 1; i >= 0; i-- {
		out[i] = int(idx % int64(k))
		idx /= int64(k)
	}
	return out
}

func ipow(k, n int) int64 {
	r := int64(1)
	for i := 0; i < n; i++ {
		r *= int64(k)
	}
	return r
}

func removeDir(dir string) { os.RemoveAll(dir) }
