package props

import (
	"net"
	"time"

	"github.com/getlantern/zenodb"
	"github.com/getlantern/zenodb/rpc"
	rpcserver "github.com/getlantern/zenodb/rpc/server"
)

// startRPC serves db over real gRPC on a loopback listener.
func startRPC(db *zenodb.DB, id int, password string) (addr string, stop func(), err error) {
	l, err := net.Listen("tcp", "127.0.0.1:0")
	if err != nil {
		return "", nil, err
	}
	serve, stopServer := rpcserver.PrepareServer(db, l, &rpcserver.Opts{ID: id, Password: password})
	go serve()
	return l.Addr().String(), func() { stopServer(); l.Close() }, nil
}

func dialRPC(addr, password string) (rpc.Client, error) {
	return rpc.Dial(addr, &rpc.ClientOpts{
		Password: password,
		Dialer: func(addr string, timeout time.Duration) (net.Conn, error) {
			return net.DialTimeout("tcp", addr, timeout)
		},
	})
}
