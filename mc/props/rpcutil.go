package props

import (
	"context"
	"net"
	"sync"
	"time"

	"github.com/golang/snappy"
	"google.golang.org/grpc"
	"google.golang.org/grpc/metadata"

	"github.com/getlantern/zenodb/common"

	"github.com/getlantern/zenodb"
	"github.com/getlantern/zenodb/rpc"
	rpcserver "github.com/getlantern/zenodb/rpc/server"
)

// startRPC serves db over real gRPC on a loopback listener.
func startRPC(db *zenodb.DB, id int, password string) (addr string, stop func(), err error) {
	l, err := net.Listen("tcp", "127.0.0.1:0")
	if err != nil {
		return "", nil, err
	}
	serve, stopServer := rpcserver.PrepareServer(db, l, &rpcserver.Opts{ID: id, Password: password})
	go serve()
	return l.Addr().String(), func() { stopServer(); l.Close() }, nil
}

func dialRPC(addr, password string) (rpc.Client, error) {
	return rpc.Dial(addr, &rpc.ClientOpts{
		Password: password,
		Dialer: func(addr string, timeout time.Duration) (net.Conn, error) {
			return net.DialTimeout("tcp", addr, timeout)
		},
	})
}

// --- a hand-rolled client: every field of the request message and the credentials are the caller's to choose -----

type rawSnappyConn struct {
	net.Conn
	r  *snappy.Reader
	w  *snappy.Writer
	mx sync.Mutex
}

func (sc *rawSnappyConn) Read(p []byte) (int, error) { return sc.r.Read(p) }
func (sc *rawSnappyConn) Write(p []byte) (int, error) {
	sc.mx.Lock()
	defer sc.mx.Unlock()
	return sc.w.Write(p)
}
func (sc *rawSnappyConn) Close() error {
	sc.mx.Lock()
	sc.w.Close()
	sc.mx.Unlock()
	return sc.Conn.Close()
}

func dialRawRPC(addr string) (*grpc.ClientConn, error) {
	return grpc.Dial(addr, grpc.WithInsecure(),
		grpc.WithDialer(func(addr string, timeout time.Duration) (net.Conn, error) {
			conn, err := net.DialTimeout("tcp", addr, timeout)
			if err != nil {
				return nil, err
			}
			return &rawSnappyConn{Conn: conn, r: snappy.NewReader(conn), w: snappy.NewWriter(conn)}, nil
		}),
		grpc.WithCodec(rpc.Codec))
}

// rawRPCQuery sends the given query message on the "query" stream and counts what comes back.
func rawRPCQuery(cc *grpc.ClientConn, password string, q *rpc.Query) (gotMetaData bool, rows int, err error) {
	ctx, cancel := context.WithTimeout(context.Background(), 10*time.Second)
	defer cancel()
	if password != "" {
		ctx = metadata.NewOutgoingContext(ctx, metadata.New(map[string]string{rpc.PasswordKey: password}))
	}
	stream, err := grpc.NewClientStream(ctx, &rpc.ServiceDesc.Streams[0], cc, "/zenodb/query")
	if err != nil {
		return false, 0, err
	}
	if err = stream.SendMsg(q); err != nil {
		return false, 0, err
	}
	if err = stream.CloseSend(); err != nil {
		return false, 0, err
	}
	md := &common.QueryMetaData{}
	if err = stream.RecvMsg(md); err != nil {
		return false, 0, err
	}
	gotMetaData = len(md.FieldNames) > 0 || md.Plan != ""
	for {
		result := &rpc.RemoteQueryResult{}
		if err = stream.RecvMsg(result); err != nil {
			return gotMetaData, rows, err
		}
		if result.EndOfResults {
			return gotMetaData, rows, nil
		}
		if result.Row != nil || result.Key != nil {
			rows++
		}
	}
}
