package props

import (
	"context"
	"encoding/json"
	"fmt"
	"strings"
	"sync/atomic"
	"time"

	"github.com/getlantern/wal"
	"github.com/getlantern/zenodb"

	"verif/mc/dbdrv"
	"verif/mc/fw"
	rm "verif/mc/refmodel"
)

// C18 — a query observes the table as of a single instant. Every placement of
// interfering events between the start of a real scan and the delivery of each
// of its rows is enumerated; the scan's row callback (and the scan-snapshot
// hook for position 0) is the scheduling point.

type c18Event struct {
	Kind string `json:"kind"` // same | newer | older | delivered | newkey | flush | insflush | alter
}

type c18Place struct {
	Pos   int    `json:"pos"` // 0 = right after the snapshot, i = after row i was delivered
	Event string `json:"event"`
}

type c18Case struct {
	History int        `json:"history"` // 0: period 1 on disk + period 2 in memory for every key; 1: keys 1,2 on disk, 3,4 in memory; 2: all in memory; 3: all on disk; 4: empty table
	Mem     bool       `json:"mem"`
	Places  []c18Place `json:"places"`
}

var c18Events = []string{"same", "newer", "older", "delivered", "newkey", "flush", "insflush", "alter"}

func c18Table(alt bool) *rm.Table {
	t := &rm.Table{Name: "t18", Stream: "s", GroupBy: []string{"x"}, Resolution: time.Second, Retention: 100 * time.Second,
		Fields: []rm.Field{
			{Name: "a", Expr: rm.Agg{Kind: "SUM", Val: "a"}},
			{Name: "av", Expr: rm.Agg{Kind: "AVG", Val: "a"}},
			{Name: "ca", Expr: rm.Agg{Kind: "COUNT", Val: "a"}},
		}}
	if alt {
		t.Fields = []rm.Field{t.Fields[1], t.Fields[0], {Name: "mx", Expr: rm.Agg{Kind: "MAX", Val: "a"}}, t.Fields[2]}
	}
	return t
}

func c18History(h int) ([]*rm.Pt, map[int]bool) {
	var pts []*rm.Pt
	flushAfter := map[int]bool{}
	switch h {
	case 0:
		for k := 1; k <= 4; k++ {
			pts = append(pts, &rm.Pt{TS: 1 * sec, Dims: D("x", k), Vals: D("a", float64(k))})
		}
		flushAfter[3] = true
		for k := 1; k <= 4; k++ {
			pts = append(pts, &rm.Pt{TS: 2 * sec, Dims: D("x", k), Vals: D("a", float64(10*k))})
		}
	case 1:
		for k := 1; k <= 2; k++ {
			pts = append(pts, &rm.Pt{TS: 1 * sec, Dims: D("x", k), Vals: D("a", float64(k))}, &rm.Pt{TS: 2 * sec, Dims: D("x", k), Vals: D("a", float64(10*k))})
		}
		flushAfter[3] = true
		for k := 3; k <= 4; k++ {
			pts = append(pts, &rm.Pt{TS: 1 * sec, Dims: D("x", k), Vals: D("a", float64(k))}, &rm.Pt{TS: 2 * sec, Dims: D("x", k), Vals: D("a", float64(10*k))})
		}
	case 3:
		// everything on disk, the memstore empty when the scan starts
		for k := 1; k <= 4; k++ {
			pts = append(pts, &rm.Pt{TS: 1 * sec, Dims: D("x", k), Vals: D("a", float64(k))}, &rm.Pt{TS: 2 * sec, Dims: D("x", k), Vals: D("a", float64(10*k))})
		}
		flushAfter[7] = true
	case 4:
		// nothing stored at all: file absent and memstore empty when the scan starts
	default:
		for k := 1; k <= 4; k++ {
			pts = append(pts, &rm.Pt{TS: 2 * sec, Dims: D("x", k), Vals: D("a", float64(10*k))}, &rm.Pt{TS: 1 * sec, Dims: D("x", k), Vals: D("a", float64(k))})
		}
	}
	return pts, flushAfter
}

func c18Open(c *fw.Ctx, h int) (*dbdrv.DB, *rm.State) {
	t := c18Table(false)
	db, err := dbdrv.Open(newDir(c), dbdrv.Config{Tables: []dbdrv.TableDef{defOf(t)}})
	if err != nil {
		c.Incomplete("open: " + err.Error())
		return nil, nil
	}
	model := rm.NewState(0, t)
	pts, flushAfter := c18History(h)
	for i, p := range pts {
		if err := db.Insert("s", toPoint(p)); err != nil {
			c.Incomplete("insert: " + err.Error())
			db.Close()
			return nil, nil
		}
		model.Insert("s", p)
		if flushAfter[i] {
			db.FlushAll()
		}
	}
	return db, model
}

var c18HookActive int32

// c18Run executes one scan with the given placements. order is the delivery
// order of keys learned from an undisturbed scan (nil to learn it).
func c18Run(c *fw.Ctx, cs c18Case, report bool) []int {
	db, model := c18Open(c, cs.History)
	if db == nil {
		return nil
	}
	defer func() {
		dir := db.Dir
		db.Close()
		removeDir(dir)
	}()
	t := c18Table(false)
	expected := map[string][]float64{}
	for _, r := range model.NativeRows(t) {
		expected[fmt.Sprintf("%d|%s", r.TS, r.Key)] = r.Vals
	}
	names := fieldNames(t.AllFields())
	// learn the delivery order first
	var order []int
	base, err := db.Query("SELECT * FROM t18", cs.Mem)
	if err != nil {
		c.Incomplete("baseline scan: " + err.Error())
		return nil
	}
	for i, r := range base.Rows {
		if i == 0 || base.Rows[i-1].Key["x"] != r.Key["x"] {
			order = append(order, r.Key["x"].(int))
		}
	}
	delivered := 0
	failed := ""
	doEvent := func(pos int, ev string) {
		next := -1
		if pos < len(order) {
			next = order[pos]
		}
		if next < 0 && len(order) > 0 {
			next = order[len(order)-1]
		}
		if next < 0 {
			next = 1
		}
		prev := 1
		if len(order) > 0 {
			prev = order[0]
		}
		if pos > 0 && pos-1 < len(order) {
			prev = order[pos-1]
		}
		ins := func(p *rm.Pt) {
			if err := db.Insert("s", toPoint(p)); err != nil {
				failed = "insert during scan: " + err.Error()
			}
			c.Transition(1)
		}
		switch ev {
		case "same":
			ins(&rm.Pt{TS: 2 * sec, Dims: D("x", next), Vals: D("a", 100.0)})
		case "newer":
			ins(&rm.Pt{TS: 3 * sec, Dims: D("x", next), Vals: D("a", 100.0)})
		case "older":
			ins(&rm.Pt{TS: sec / 2, Dims: D("x", next), Vals: D("a", 100.0)})
		case "delivered":
			ins(&rm.Pt{TS: 2 * sec, Dims: D("x", prev), Vals: D("a", 100.0)})
		case "newkey":
			ins(&rm.Pt{TS: 2 * sec, Dims: D("x", 9), Vals: D("a", 100.0)})
		case "flush":
			db.FlushAll()
			c.Transition(1)
		case "insflush":
			ins(&rm.Pt{TS: 2 * sec, Dims: D("x", next), Vals: D("a", 100.0)})
			db.FlushAll()
			c.Transition(1)
		case "alter":
			if err := db.Alter(dbdrv.Config{Tables: []dbdrv.TableDef{defOf(c18Table(true))}}); err != nil {
				failed = "alter during scan: " + err.Error()
			}
			c.Transition(1)
		}
	}
	at := func(pos int) {
		for _, p := range cs.Places {
			if p.Pos == pos {
				doEvent(pos, p.Event)
			}
		}
	}
	atomic.StoreInt32(&c18HookActive, 1)
	dbdrv.SetPointHook(func(z *zenodb.DB, table, name string, _ wal.Offset) {
		if name == "scan-snapshot" && z == db.Z && atomic.CompareAndSwapInt32(&c18HookActive, 1, 2) {
			at(0)
		}
	})
	defer dbdrv.SetPointHook(nil)
	var bad []string
	res, err := dbdrv.QueryZ(db.Z, context.Background(), "SELECT * FROM t18", cs.Mem, func(i int, r *dbdrv.Row) (bool, error) {
		delivered++
		// positions count delivered *keys*; a key's flat rows come from one snapshot
		if i+1 < len(base.Rows) && base.Rows[i+1].Key["x"] == r.Key["x"] {
			return true, nil
		}
		keyPos := 0
		for j := 0; j <= i && j < len(base.Rows); j++ {
			if j == 0 || base.Rows[j].Key["x"] != base.Rows[j-1].Key["x"] {
				keyPos++
			}
		}
		at(keyPos)
		return true, nil
	})
	atomic.StoreInt32(&c18HookActive, 0)
	if failed != "" {
		c.Incomplete(failed)
		return nil
	}
	if err != nil {
		if report {
			c.Violate("C18", "scan-error", fmt.Sprintf("scan failed: %v", err), cs)
		}
		return nil
	}
	got := map[string]bool{}
	for _, r := range res.Rows {
		k := fmt.Sprintf("%d|%s", r.TS, rm.KeyString(r.Key))
		got[k] = true
		exp, ok := expected[k]
		if !ok {
			bad = append(bad, fmt.Sprintf("row %s %v reflects a point processed after the scan started (no such row at scan start)", k, r.Vals))
			continue
		}
		for fi, n := range names {
			idx := -1
			for j, f := range res.Fields {
				if f == n {
					idx = j
				}
			}
			if idx < 0 || !rm.FloatEq(r.Vals[idx], exp[fi]) {
				bad = append(bad, fmt.Sprintf("row %s field %s = %v, at scan start it was %v", k, n, valAt(r.Vals, idx), exp[fi]))
			}
		}
	}
	if cs.Mem {
		for k := range expected {
			if !got[k] {
				bad = append(bad, fmt.Sprintf("row %s (present at scan start) was not delivered", k))
			}
		}
	}
	if len(bad) > 0 && report {
		key := "scan-not-a-snapshot"
		if !cs.Mem {
			key = "disk-scan-not-a-snapshot"
		}
		c.Violate("C18", key, fmt.Sprintf("history %d, includeMemStore=%v, placements %v, delivery order of keys %v:\n%s", cs.History, cs.Mem, cs.Places, order, strings.Join(bad, "\n")), cs)
	}
	c.Outcome(fmt.Sprint(res.Canon()))
	if len(db.Panics) > 0 && report {
		c.Violate("C18", "panic", fmt.Sprint(db.Panics), cs)
	}
	return order
}

func valAt(v []float64, i int) interface{} {
	if i < 0 || i >= len(v) {
		return "missing"
	}
	return v[i]
}

func init() {
	fw.Register(&fw.Prop{
		ID:          "C18",
		Level:       "model_checking",
		NoThreads:   true,
		Rule:        "5 histories (period 1 on disk + period 2 in memory for 4 keys; keys split between disk and memory; memory only; everything on disk with an empty memstore; empty table) × includeMemStore {true,false} × every placement of one and every ordered pair (quick) / additionally every ordered triple (thorough) of interfering events {insert into the next undelivered key at the same / a newer / an older period, insert into a delivered key, new key, FlushAll, insert+FlushAll, ApplySchema} at every position between the scan snapshot and the delivery of each key; every event runs to exact quiescence inside the scan's row callback; oracle: every delivered row equals the reference model at scan start; non-trivial = placement with at least one insert before the last delivery",
		Assumptions: []string{"the disk-only scan is a control: it must be just as stable", "positions are between keys: the flat rows of one key are derived from a single in-memory snapshot of that key"},
		Shards: func(tier string) int {
			if tier == "thorough" {
				return 32 // short-lived workers: every closed zenodb instance leaves goroutines and buffers behind
			}
			return 8
		},
		Budget: func(tier string) time.Duration {
			if tier == "thorough" {
				return 90 * time.Minute
			}
			return 20 * time.Minute
		},
		Run: func(c *fw.Ctx) {
			var idx int64
			for h := 0; h < 5; h++ {
				for _, mem := range []bool{true, false} {
					nkeys := 4
					var places [][]c18Place
					for pos := 0; pos <= nkeys; pos++ {
						for _, ev := range c18Events {
							places = append(places, []c18Place{{pos, ev}})
						}
					}
					n := len(places)
					for i := 0; i < n; i++ {
						for j := 0; j < n; j++ {
							if places[j][0].Pos >= places[i][0].Pos && i != j {
								places = append(places, []c18Place{places[i][0], places[j][0]})
								if !c.Thorough() {
									continue
								}
								for k := 0; k < n; k++ {
									if places[k][0].Pos >= places[j][0].Pos && k != j && k != i {
										places = append(places, []c18Place{places[i][0], places[j][0], places[k][0]})
									}
								}
							}
						}
					}
					for _, pl := range places {
						idx++
						if !c.Mine(idx) {
							continue
						}
						if c.Expired() {
							c.Incomplete("time budget used up")
							return
						}
						cs := c18Case{History: h, Mem: mem, Places: pl}
						c.Eval(1)
						c.Trace(1)
						if pl[0].Pos < nkeys && pl[0].Event != "flush" && pl[0].Event != "alter" {
							c.Nontrivial(fmt.Sprint(cs))
						}
						c.Sample(fmt.Sprintf("h%d-mem%v", h, mem), cs)
						c18Run(c, cs, true)
						c.State(fmt.Sprint(cs))
					}
				}
			}
			c.R.Bound = "single placements and ordered pairs (quick) / plus ordered triples (thorough)"
		},
		Replay: func(c *fw.Ctx, raw json.RawMessage) {
			var cs c18Case
			if json.Unmarshal(raw, &cs) != nil {
				return
			}
			c18Run(c, cs, true)
		},
	})
}
