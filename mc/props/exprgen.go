package props

import (
	"time"

	"github.com/getlantern/goexpr"
	"github.com/getlantern/zenodb/expr"
)

// Expression generator shared by C05 and C20: trees over the aggregate grammar
// built with the real expr package.

type genExpr struct {
	E    expr.Expr
	Desc string
}

func exprLeaves() []genExpr {
	b := func() expr.Expr { return expr.BOUNDED(expr.FIELD("a"), 0, 2) }
	return []genExpr{
		{expr.SUM(expr.FIELD("a")), "SUM(a)"},
		{expr.MIN(expr.FIELD("a")), "MIN(a)"},
		{expr.MAX(expr.FIELD("a")), "MAX(a)"},
		{expr.COUNT(expr.FIELD("a")), "COUNT(a)"},
		{expr.AVG(expr.FIELD("a")), "AVG(a)"},
		{expr.WAVG(expr.FIELD("a"), expr.FIELD("w")), "WAVG(a,w)"},
		{expr.SUM(b()), "SUM(BOUNDED(a,0,2))"},
		{expr.MIN(b()), "MIN(BOUNDED(a,0,2))"},
		{expr.MAX(b()), "MAX(BOUNDED(a,0,2))"},
		{expr.COUNT(b()), "COUNT(BOUNDED(a,0,2))"},
		{expr.AVG(b()), "AVG(BOUNDED(a,0,2))"},
		{expr.WAVG(b(), expr.FIELD("w")), "WAVG(BOUNDED(a,0,2),w)"},
		{expr.PERCENTILE(expr.FIELD("a"), 50, 0, 10, 0), "PERCENTILE(a,50,0,10,0)"},
		{expr.SUM(expr.FIELD("b")), "SUM(b)"},
		{expr.CONST(3), "CONST(3)"},
	}
}

var binOps = []string{"+", "-", "*", "/", "<", "<=", "=", "<>", ">=", ">", "AND", "OR"}

func binOf(op string, l, r expr.Expr) expr.Expr {
	switch op {
	case "+":
		return expr.ADD(l, r)
	case "-":
		return expr.SUB(l, r)
	case "*":
		return expr.MULT(l, r)
	case "/":
		return expr.DIV(l, r)
	case "<":
		return expr.LT(l, r)
	case "<=":
		return expr.LTE(l, r)
	case "=":
		return expr.EQ(l, r)
	case "<>":
		return expr.NEQ(l, r)
	case ">=":
		return expr.GTE(l, r)
	case ">":
		return expr.GT(l, r)
	case "AND":
		return expr.AND(l, r)
	case "OR":
		return expr.OR(l, r)
	}
	panic(op)
}

func condYEqTrue() goexpr.Expr {
	c, _ := goexpr.Binary("=", goexpr.Param("y"), goexpr.Constant(true))
	return c
}

func unaryOver(x genExpr) []genExpr {
	var out []genExpr
	out = append(out, genExpr{expr.IF(condYEqTrue(), x.E), "IF(y=true," + x.Desc + ")"})
	out = append(out, genExpr{expr.SHIFT(x.E, -1*time.Second), "SHIFT(" + x.Desc + ",-1s)"})
	for _, name := range []string{"LN", "LOG2", "LOG10"} {
		u, err := expr.UnaryMath(name, x.E)
		if err == nil {
			out = append(out, genExpr{u, name + "(" + x.Desc + ")"})
		}
	}
	return out
}

// genExprs enumerates every tree up to the given depth (1 = leaves) that
// passes Validate(). At depth 3 the inner (depth-2) operands are restricted
// to a reduced operator/leaf set to keep the space enumerable; the reduced
// sets are part of the stated bound.
func genExprs(depth int) []genExpr {
	leaves := exprLeaves()
	out := append([]genExpr{}, leaves...)
	if depth < 2 {
		return out
	}
	var d2 []genExpr
	for _, l := range leaves {
		d2 = append(d2, unaryOver(l)...)
	}
	for _, op := range binOps {
		for _, l := range leaves {
			for _, r := range leaves {
				d2 = append(d2, genExpr{binOf(op, l.E, r.E), "(" + l.Desc + " " + op + " " + r.Desc + ")"})
			}
		}
	}
	out = append(out, d2...)
	if depth >= 3 {
		redOps := []string{"+", "/", "<", "AND"}
		redLeaves := []genExpr{leaves[0], leaves[3], leaves[4], leaves[5], leaves[10], leaves[12], leaves[14]}
		var inner []genExpr
		for _, l := range redLeaves {
			inner = append(inner, unaryOver(l)...)
		}
		for _, op := range redOps {
			for _, l := range redLeaves {
				for _, r := range redLeaves {
					inner = append(inner, genExpr{binOf(op, l.E, r.E), "(" + l.Desc + " " + op + " " + r.Desc + ")"})
				}
			}
		}
		for _, in := range inner {
			out = append(out, unaryOver(in)...)
			for _, op := range redOps {
				for _, l := range redLeaves {
					out = append(out, genExpr{binOf(op, in.E, l.E), "(" + in.Desc + " " + op + " " + l.Desc + ")"})
					out = append(out, genExpr{binOf(op, l.E, in.E), "(" + l.Desc + " " + op + " " + in.Desc + ")"})
				}
			}
		}
	}
	var valid []genExpr
	for _, g := range out {
		if g.E.Validate() == nil {
			valid = append(valid, g)
		}
	}
	return valid
}
