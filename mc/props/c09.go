package props

import (
	"encoding/json"
	"fmt"
	"sort"
	"strings"
	"time"

	"verif/mc/dbdrv"
	"verif/mc/fw"
	rm "verif/mc/refmodel"
)

// C09 — ORDER BY uses the whole key list; LIMIT/OFFSET slice that order.

type c09Key struct {
	Field string `json:"field"`
	Desc  bool   `json:"desc"`
}

type c09Case struct {
	Dataset int      `json:"dataset"`
	Keys    []c09Key `json:"keys"`
	Limit   int      `json:"limit"`  // -1 = absent
	Offset  int      `json:"offset"` // -1 = absent
}

func c09Table() *rm.Table {
	return &rm.Table{Name: "t9", Stream: "s", GroupBy: []string{"x", "y"}, Resolution: time.Second, Retention: 100 * time.Second,
		Fields: []rm.Field{
			{Name: "a", Expr: rm.Agg{Kind: "SUM", Val: "a"}},
			{Name: "av", Expr: rm.Agg{Kind: "AVG", Val: "a"}},
			{Name: "nv", Expr: rm.Agg{Kind: "SUM", Val: "nv"}},
		}}
}

func c09Pool() []*rm.Pt {
	return []*rm.Pt{
		{TS: 1 * sec, Dims: D("x", 1, "y", "a"), Vals: D("a", 5.0)},
		{TS: 1 * sec, Dims: D("x", 2, "y", "a"), Vals: D("a", 3.0)},
		{TS: 1 * sec, Dims: D("x", 1, "y", "b"), Vals: D("a", 5.0)},
		{TS: 2 * sec, Dims: D("x", 1, "y", "a"), Vals: D("a", 5.0)},
		{TS: 2 * sec, Dims: D("x", 2), Vals: D("a", 1.0)},
		{TS: 3 * sec, Dims: D("x", 3, "y", "b"), Vals: D("a", 3.0)},
		{TS: 3 * sec, Dims: D("y", "a"), Vals: D("a", 7.0)},
		{TS: 2 * sec, Dims: D("x", 2, "y", "b"), Vals: D("a", 5.0)},
		{TS: 2 * sec, Dims: D("x", 2, "y", "b"), Vals: D("a", 1.0)},
	}
}

var c09Datasets = [][]int{
	{0, 1, 2, 3, 4, 5, 6, 7, 8},
	{0, 1, 2, 3},
	{0, 3, 4, 6},
	{1, 2, 5, 7, 8},
	{2, 3, 4, 5, 6, 7, 8},
}

func c09SQL(cs c09Case) string {
	sql := "SELECT * FROM t9"
	if len(cs.Keys) > 0 {
		var ks []string
		for _, k := range cs.Keys {
			s := k.Field
			if k.Desc {
				s += " DESC"
			}
			ks = append(ks, s)
		}
		sql += " ORDER BY " + strings.Join(ks, ", ")
	}
	if cs.Limit >= 0 {
		if cs.Offset >= 0 {
			sql += fmt.Sprintf(" LIMIT %d, %d", cs.Offset, cs.Limit)
		} else {
			sql += fmt.Sprintf(" LIMIT %d", cs.Limit)
		}
	}
	return sql
}

// c09Cmp compares two rows on one key; nilFirst decides where a missing dim
// sorts. ok=false if the values are not comparable (never for this data).
func c09Cmp(res *dbdrv.Result, a, b *dbdrv.Row, k c09Key, nilFirst bool) int {
	var r int
	switch {
	case k.Field == "_time":
		r = cmpInt(a.TS, b.TS)
	default:
		fi := -1
		for i, f := range res.Fields {
			if f == k.Field {
				fi = i
			}
		}
		if fi >= 0 {
			r = cmpFloat(a.Vals[fi], b.Vals[fi])
		} else {
			va, aok := a.Key[k.Field]
			vb, bok := b.Key[k.Field]
			switch {
			case !aok && !bok:
				r = 0
			case !aok:
				r = -1
				if !nilFirst {
					r = 1
				}
				// nil placement is not reversed by DESC in this oracle: either end is accepted
				return r
			case !bok:
				r = 1
				if !nilFirst {
					r = -1
				}
				return r
			default:
				switch x := va.(type) {
				case int:
					r = cmpInt(int64(x), int64(vb.(int)))
				case string:
					r = strings.Compare(x, vb.(string))
				}
			}
		}
	}
	if k.Desc {
		r = -r
	}
	return r
}

func cmpInt(a, b int64) int {
	if a < b {
		return -1
	}
	if a > b {
		return 1
	}
	return 0
}
func cmpFloat(a, b float64) int {
	if a < b {
		return -1
	}
	if a > b {
		return 1
	}
	return 0
}

// c09Sorted tells whether rows are non-decreasing under the key list for some
// consistent placement of missing dims.
func c09Sorted(res *dbdrv.Result, keys []c09Key) (bool, string) {
	n := len(keys)
	var lastMsg string
	for mask := 0; mask < 1<<n; mask++ {
		ok := true
		for i := 0; i+1 < len(res.Rows) && ok; i++ {
			a, b := &res.Rows[i], &res.Rows[i+1]
			for ki, k := range keys {
				r := c09Cmp(res, a, b, k, mask&(1<<ki) != 0)
				if r < 0 {
					break
				}
				if r > 0 {
					ok = false
					lastMsg = fmt.Sprintf("rows %d and %d out of order on key %d (%s): %v | %v", i, i+1, ki, k.Field, rowStr(a), rowStr(b))
					break
				}
			}
		}
		if ok {
			return true, ""
		}
	}
	return false, lastMsg
}

func rowStr(r *dbdrv.Row) string {
	return fmt.Sprintf("ts=%d %s %v", r.TS/sec, dbdrv.KeyString(r.Key), r.Vals)
}

func keyTuple(res *dbdrv.Result, r *dbdrv.Row, keys []c09Key) string {
	var parts []string
	for _, k := range keys {
		if k.Field == "_time" {
			parts = append(parts, fmt.Sprint(r.TS))
			continue
		}
		fi := -1
		for i, f := range res.Fields {
			if f == k.Field {
				fi = i
			}
		}
		if fi >= 0 {
			parts = append(parts, fmt.Sprint(r.Vals[fi]))
		} else {
			parts = append(parts, fmt.Sprintf("%T:%v", r.Key[k.Field], r.Key[k.Field]))
		}
	}
	return strings.Join(parts, "|")
}

func multiset(res *dbdrv.Result) map[string]int {
	m := map[string]int{}
	for _, s := range res.Canon() {
		m[s]++
	}
	return m
}

type c09Env struct {
	db        *dbdrv.DB
	unordered *dbdrv.Result
	ordered   map[string]*dbdrv.Result
}

func c09Open(c *fw.Ctx, ds int) *c09Env {
	t := c09Table()
	db, err := dbdrv.Open(newDir(c), dbdrv.Config{Tables: []dbdrv.TableDef{defOf(t)}})
	if err != nil {
		c.Incomplete("open: " + err.Error())
		return nil
	}
	pool := c09Pool()
	for i, pi := range c09Datasets[ds] {
		if err := db.Insert("s", toPoint(pool[pi])); err != nil {
			c.Incomplete("insert: " + err.Error())
			db.Close()
			return nil
		}
		if i == 1 {
			db.FlushAll() // part on disk, part in memory
		}
	}
	un, err := db.Query("SELECT * FROM t9", true)
	if err != nil {
		c.Incomplete("baseline query: " + err.Error())
		db.Close()
		return nil
	}
	return &c09Env{db: db, unordered: un, ordered: map[string]*dbdrv.Result{}}
}

func c09Check(c *fw.Ctx, env *c09Env, cs c09Case) {
	sql := c09SQL(cs)
	res, err := env.db.Query(sql, true)
	if err != nil {
		c.Violate("C09", "query-error", fmt.Sprintf("%s: %v", sql, err), cs)
		return
	}
	full := env.unordered
	total := len(full.Rows)
	// the ordered, unlimited result for this key list
	ordKey := c09SQL(c09Case{Dataset: cs.Dataset, Keys: cs.Keys, Limit: -1, Offset: -1})
	ord := env.ordered[ordKey]
	if ord == nil {
		ord, err = env.db.Query(ordKey, true)
		if err != nil {
			c.Violate("C09", "query-error", fmt.Sprintf("%s: %v", ordKey, err), cs)
			return
		}
		env.ordered[ordKey] = ord
	}
	if cs.Limit < 0 {
		// (i) same multiset as the unordered query
		if fmt.Sprint(multiset(res)) != fmt.Sprint(multiset(full)) {
			c.Violate("C09", "order-changes-rows", fmt.Sprintf("%s returns a different multiset of rows than the unordered query:\n%v\nvs\n%v", sql, res.Canon(), full.Canon()), cs)
			return
		}
		// (ii) sorted under the full key list
		if ok, msg := c09Sorted(res, cs.Keys); !ok {
			key := "order-by-not-sorted"
			c.Violate("C09", key, fmt.Sprintf("%s: %s", sql, msg), cs)
			return
		}
		if len(cs.Keys) > 0 && fmt.Sprint(rowsInOrder(res)) != fmt.Sprint(rowsInOrder(full)) {
			c.Nontrivial(sql + fmt.Sprint(cs.Dataset))
		}
		c.Outcome(fmt.Sprint(rowsInOrder(res)))
		return
	}
	// (iii) LIMIT n OFFSET m
	m := cs.Offset
	if m < 0 {
		m = 0
	}
	want := total - m
	if want < 0 {
		want = 0
	}
	if want > cs.Limit {
		want = cs.Limit
	}
	if len(res.Rows) > cs.Limit {
		key := "limit-exceeded"
		if cs.Limit == 0 {
			key = "limit-0-returns-rows"
		}
		c.Violate("C09", key, fmt.Sprintf("%s returned %d rows, more than the limit", sql, len(res.Rows)), cs)
		return
	}
	if len(res.Rows) != want {
		c.Violate("C09", "limit-offset-count", fmt.Sprintf("%s returned %d rows, want %d (total %d)", sql, len(res.Rows), want, total), cs)
		return
	}
	// rows must be a sub-multiset of the full result
	fm := multiset(full)
	for _, s := range res.Canon() {
		fm[s]--
		if fm[s] < 0 {
			c.Violate("C09", "limit-row-not-in-result", fmt.Sprintf("%s returned a row outside the full result: %s", sql, s), cs)
			return
		}
	}
	if len(cs.Keys) > 0 {
		for i := range res.Rows {
			got := keyTuple(res, &res.Rows[i], cs.Keys)
			exp := keyTuple(ord, &ord.Rows[m+i], cs.Keys)
			if got != exp {
				c.Violate("C09", "limit-offset-slice", fmt.Sprintf("%s: row %d has sort key %s, row %d of the ordered result has %s", sql, i, got, m+i, exp), cs)
				return
			}
		}
	}
	if want > 0 && want < total {
		c.Nontrivial(sql + fmt.Sprint(cs.Dataset))
	}
	c.Outcome(fmt.Sprint(rowsInOrder(res)))
}

func rowsInOrder(res *dbdrv.Result) []string {
	var out []string
	for i := range res.Rows {
		out = append(out, rowStr(&res.Rows[i]))
	}
	return out
}

var c09Fields = []string{"_time", "x", "y", "a", "av"}

// c09KeyLists enumerates all key lists of length 0..maxLen without repetition,
// with all ASC/DESC assignments.
func c09KeyLists(maxLen int) [][]c09Key {
	out := [][]c09Key{nil}
	var rec func(cur []c09Key, used int)
	rec = func(cur []c09Key, used int) {
		if len(cur) > 0 {
			out = append(out, append([]c09Key(nil), cur...))
		}
		if len(cur) == maxLen {
			return
		}
		for i, f := range c09Fields {
			if used&(1<<i) != 0 {
				continue
			}
			for _, d := range []bool{false, true} {
				rec(append(cur, c09Key{f, d}), used|1<<i)
			}
		}
	}
	rec(nil, 0)
	return out
}

func init() {
	limits := []int{-1, 0, 1, 2, 3, 100}
	offsets := []int{-1, 0, 1, 2, 100}
	fw.Register(&fw.Prop{
		ID:          "C09",
		Level:       "exploration",
		Rule:        "5 datasets built for ties (equal _time with different dims, equal values at different times, missing dims, never-set field; part flushed, part in memory) × all ORDER BY key lists of length 0..3 (quick) / 0..4 (thorough) without repetition over {_time,x,y,a,av} with every ASC/DESC assignment × LIMIT {absent,0,1,2,3,100} × OFFSET {absent,0,1,2,100}; oracle: same multiset as unordered, adjacent rows non-decreasing under an independently written lexicographic comparator (missing dims may sort first or last, consistently), LIMIT/OFFSET rows carry the sort keys of rows m..m+n-1 of the ordered result, never more than n; non-trivial = order differs from unordered / limit cuts a proper non-empty part",
		Assumptions: []string{"ties may be broken either way", "missing dimensions may sort to either end"},
		Shards:      func(tier string) int { return 16 },
		Budget:      func(tier string) time.Duration { return 15 * time.Minute },
		Run: func(c *fw.Ctx) {
			maxLen := 3
			if c.Thorough() {
				maxLen = 4
			}
			lists := c09KeyLists(maxLen)
			for ds := range c09Datasets {
				env := c09Open(c, ds)
				if env == nil {
					return
				}
				for li, keys := range lists {
					if !c.Mine(int64(li)) {
						continue
					}
					if c.Expired() {
						c.Incomplete("time budget used up")
						env.db.Close()
						return
					}
					for _, lim := range limits {
						for _, off := range offsets {
							if lim < 0 && off >= 0 {
								continue // OFFSET cannot be written without LIMIT
							}
							cs := c09Case{Dataset: ds, Keys: keys, Limit: lim, Offset: off}
							c.Eval(1)
							c09Check(c, env, cs)
							if len(keys) == 2 && lim == 2 {
								c.Sample("query", map[string]interface{}{"dataset": ds, "sql": c09SQL(cs)})
							}
						}
					}
				}
				env.db.Close()
			}
			c.R.Bound = fmt.Sprintf("key lists up to length %d", maxLen)
		},
		Replay: func(c *fw.Ctx, raw json.RawMessage) {
			var cs c09Case
			if json.Unmarshal(raw, &cs) != nil {
				return
			}
			env := c09Open(c, cs.Dataset)
			if env == nil {
				return
			}
			defer env.db.Close()
			c09Check(c, env, cs)
		},
	})
	_ = sort.Strings
}
