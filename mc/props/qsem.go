package props

import (
	"fmt"
	"math"
	"sort"
	"strings"
	"time"

	"verif/mc/dbdrv"
	rm "verif/mc/refmodel"
)

// Shared oracle for C06/C07: an anchoring-agnostic check of re-aggregated
// query results against the raw accepted points.

type qPoint struct {
	Dims map[string]interface{}
	E    int64   // native period end (ns rel. to epoch)
	A    float64 // value of "a": a distinct power of two, so sums identify subsets
	// Status: 0 = must be reflected, 1 = may or may not be (the property leaves
	// it open, e.g. a comparison against an absent dimension), 2 = must not be
	Status int
	B      float64 // optional second value ("b"), 0 if absent
	HasB   bool
}

type qSpec struct {
	GroupBy  []string // nil = all stored dims; ["_"] = none
	NativeRs int64    // table resolution
	// Must window: points whose native period lies wholly inside (Lo, Hi] must be
	// covered by exactly one row; rows wholly inside must be exact.
	Lo, Hi int64
	// ReqA/ReqU: requested range (math.MinInt64 / MaxInt64 when absent): no row
	// may end at or before ReqA or begin at or after ReqU.
	ReqA, ReqU int64
	// OldestT: rows ending before this are a violation (math.MinInt64 = no such rule)
	OldestT int64
}

func (q qSpec) project(d map[string]interface{}) string {
	if q.GroupBy == nil {
		k, _ := rm.KeyOf(d, nil)
		return k
	}
	if len(q.GroupBy) == 1 && q.GroupBy[0] == "_" {
		return ""
	}
	k, _ := rm.KeyOf(d, q.GroupBy)
	return k
}

func fieldIdx(res *dbdrv.Result, name string) int {
	for i, f := range res.Fields {
		if f == name {
			return i
		}
	}
	return -1
}

// checkSemantics returns "" or a description of the first violation, and the
// violation class.
func checkSemantics(res *dbdrv.Result, pts []qPoint, q qSpec) (string, string) {
	P := int64(res.Resolution)
	if P <= 0 {
		return "resolution", fmt.Sprintf("plan reports resolution %v", res.Resolution)
	}
	byKey := map[string][]dbdrv.Row{}
	for _, r := range res.Rows {
		k := rm.KeyString(r.Key)
		byKey[k] = append(byKey[k], r)
	}
	ptsByKey := map[string][]qPoint{}
	for _, p := range pts {
		k := q.project(p.Dims)
		ptsByKey[k] = append(ptsByKey[k], p)
	}
	d := func(v int64) string { return time.Duration(v).String() }
	for k, rows := range byKey {
		sort.Slice(rows, func(i, j int) bool { return rows[i].TS < rows[j].TS })
		for i := 1; i < len(rows); i++ {
			if rows[i].TS-rows[i-1].TS < P {
				return "overlapping-periods", fmt.Sprintf("key %q: rows at %s and %s overlap (period %s)", k, d(rows[i-1].TS), d(rows[i].TS), d(P))
			}
		}
		for _, r := range rows {
			T := r.TS
			if q.ReqA != math.MinInt64 && T <= q.ReqA {
				return "row-before-asof", fmt.Sprintf("key %q: row ending %s lies at or before asOf %s", k, d(T), d(q.ReqA))
			}
			if q.ReqU != math.MaxInt64 && T-P >= q.ReqU {
				return "row-after-until", fmt.Sprintf("key %q: row (%s, %s] begins at or after until %s", k, d(T-P), d(T), d(q.ReqU))
			}
			if q.OldestT != math.MinInt64 && T < q.OldestT {
				return "row-older-than-window", fmt.Sprintf("key %q: row ending %s is more than one resolution before the window start", k, d(T))
			}
			var in []qPoint
			hasMay := false
			for _, p := range ptsByKey[k] {
				if p.E > T-P && p.E <= T && p.Status != 2 {
					if p.Status == 1 {
						hasMay = true
					}
					in = append(in, p)
				}
			}
			whollyInside := T-P >= q.Lo && T <= q.Hi
			ai := fieldIdx(res, "a")
			if whollyInside && hasMay && ai >= 0 {
				// some points of the interval are optional: the value of a says which were taken
				got := uint64(r.Vals[ai])
				var sel []qPoint
				var must, all uint64
				for _, p := range in {
					all |= uint64(p.A)
					if p.Status == 0 {
						must |= uint64(p.A)
					}
					if got&uint64(p.A) != 0 {
						sel = append(sel, p)
					}
				}
				if float64(got) != r.Vals[ai] || got&^all != 0 || must&^got != 0 {
					return "wrong-point-set", fmt.Sprintf("key %q: row (%s, %s] has a = %v; required points sum to %v, permitted points to %v", k, d(T-P), d(T), r.Vals[ai], must, all)
				}
				in = sel
				hasMay = false
			}
			if whollyInside && !hasMay {
				if len(in) == 0 {
					return "row-without-points", fmt.Sprintf("key %q: row (%s, %s] %v has no accepted point", k, d(T-P), d(T), r.Vals)
				}
				sum, cnt, mx := 0.0, 0.0, math.Inf(-1)
				for _, p := range in {
					sum += p.A
					cnt++
					mx = math.Max(mx, p.A)
				}
				want := map[string]float64{"a": sum, "ca": cnt, "av": sum / cnt, "mx": mx, "ratio": sum / cnt, "_points": cnt}
				bsum := 0.0
				for _, p := range in {
					if p.HasB {
						bsum += p.B
					}
				}
				want["b"] = bsum
				want["nv"] = 0
				for fi, f := range res.Fields {
					if w, ok := want[f]; ok && !rm.FloatEq(r.Vals[fi], w) {
						return "wrong-aggregate", fmt.Sprintf("key %q: row (%s, %s] field %s = %v, the %d points in that interval give %v", k, d(T-P), d(T), f, r.Vals[fi], len(in), w)
					}
				}
			} else if ai >= 0 {
				// straddles an edge of the window: whatever it holds must come from points of its own interval, and
				// not from stored periods that end at or before the requested asOf or begin at or after the
				// requested until (C07: no such period is returned, be it inside a coarser row)
				var all uint64
				for _, p := range in {
					if q.ReqA != math.MinInt64 && p.E <= q.ReqA {
						continue
					}
					if q.ReqU != math.MaxInt64 && p.E-q.NativeRs >= q.ReqU {
						continue
					}
					all |= uint64(p.A)
				}
				got := uint64(r.Vals[ai])
				if float64(got) != r.Vals[ai] || got&^all != 0 {
					return "foreign-points-in-row", fmt.Sprintf("key %q: row (%s, %s] has a = %v which is not a sum of points of that interval lying inside the requested range (permitted points sum to %v)", k, d(T-P), d(T), r.Vals[ai], all)
				}
			}
		}
	}
	// every point wholly inside the must window is covered by exactly one row
	for k, ps := range ptsByKey {
		for _, p := range ps {
			if p.E-q.NativeRs < q.Lo || p.E > q.Hi || p.Status == 1 {
				continue
			}
			n := 0
			for _, r := range byKey[k] {
				if p.E > r.TS-P && p.E <= r.TS {
					n++
				}
			}
			if p.Status == 2 {
				continue // excluded points are policed through the value of a in each row
			}
			if n != 1 {
				return "point-not-covered-once", fmt.Sprintf("point with key %q in native period ending %s is covered by %d rows (rows: %s)", k, d(p.E), n, rowsBrief(byKey[k], P))
			}
		}
	}
	return "", ""
}

func rowsBrief(rows []dbdrv.Row, P int64) string {
	var parts []string
	for _, r := range rows {
		parts = append(parts, fmt.Sprintf("(%s,%s]", time.Duration(r.TS-P), time.Duration(r.TS)))
	}
	return strings.Join(parts, " ")
}

// --- datasets shared by C06/C07 ------------------------------------------

func t6Table() *rm.Table {
	sumA := rm.Agg{Kind: "SUM", Val: "a"}
	cnt := rm.Agg{Kind: "COUNT", Val: "a"}
	return &rm.Table{Name: "t6", Stream: "s", GroupBy: []string{"x", "y"}, Resolution: time.Second, Retention: 6 * time.Second,
		Fields: []rm.Field{{Name: "a", Expr: sumA}, {Name: "ca", Expr: cnt}, {Name: "av", Expr: rm.Agg{Kind: "AVG", Val: "a"}},
			{Name: "mx", Expr: rm.Agg{Kind: "MAX", Val: "a"}}, {Name: "ratio", Expr: rm.Bin{Op: "/", L: sumA, R: cnt}}}}
}

// a cell is (key index 0..5, period 1..5)
type t6Cell struct{ K, P int }

func t6Dims(k int) map[string]interface{} {
	d := map[string]interface{}{"x": 1 + k/3}
	switch k % 3 {
	case 0:
		d["y"] = true
	case 1:
		d["y"] = false
	}
	return d
}

// t6Datasets enumerates all multisets-free sets of up to maxN cells (canonical
// under swapping x=1 and x=2), plus a few hand-made richer ones.
func t6Datasets(maxN int) [][]t6Cell {
	var cells []t6Cell
	for k := 0; k < 6; k++ {
		for p := 1; p <= 5; p++ {
			cells = append(cells, t6Cell{k, p})
		}
	}
	var out [][]t6Cell
	seen := map[string]bool{}
	canon := func(set []t6Cell) string {
		a := fmt.Sprint(set)
		sw := make([]t6Cell, len(set))
		for i, c := range set {
			sw[i] = t6Cell{(c.K + 3) % 6, c.P}
		}
		sort.Slice(sw, func(i, j int) bool { return sw[i].K*10+sw[i].P < sw[j].K*10+sw[j].P })
		b := fmt.Sprint(sw)
		if b < a {
			return b
		}
		return a
	}
	var rec func(start int, cur []t6Cell)
	rec = func(start int, cur []t6Cell) {
		if len(cur) > 0 {
			c := canon(cur)
			if !seen[c] {
				seen[c] = true
				out = append(out, append([]t6Cell(nil), cur...))
			}
		}
		if len(cur) == maxN {
			return
		}
		for i := start; i < len(cells); i++ {
			rec(i+1, append(cur, cells[i]))
		}
	}
	rec(0, nil)
	rich := [][]t6Cell{
		{{0, 1}, {0, 2}, {0, 4}, {1, 2}, {3, 2}},
		{{0, 1}, {1, 1}, {2, 1}, {3, 1}, {4, 5}},
		{{0, 5}, {0, 4}, {0, 3}, {0, 2}, {0, 1}},
		{{2, 2}, {5, 3}, {0, 3}, {3, 5}},
	}
	return append(rich, out...)
}

type t6Env struct {
	db  *dbdrv.DB
	pts []qPoint
	t   *rm.Table
}

// t6Open builds the dataset; split: 0 memory, 1 disk, 2 split, 3 altered (half of the points, a flush, then
// ApplySchema puts a new field z0 = SUM(zz) in front of the others and the remaining points feed it as well: the
// stored columns of one row then cover different periods). Every cell gets
// one point (two for the first cell, to exercise re-aggregation of AVG).
func t6Open(c interface {
	Incomplete(string)
}, dir string, set []t6Cell, split int) *t6Env {
	t := t6Table()
	db, err := dbdrv.Open(dir, dbdrv.Config{Tables: []dbdrv.TableDef{defOf(t)}})
	if err != nil {
		c.Incomplete("open: " + err.Error())
		return nil
	}
	env := &t6Env{db: db, t: t}
	val := 1.0
	altered := false
	add := func(cell t6Cell, off int64) bool {
		p := &rm.Pt{TS: int64(cell.P)*sec - off, Dims: t6Dims(cell.K), Vals: D("a", val)}
		if altered {
			p.Vals["zz"] = 1.0
		}
		if err := db.Insert("s", toPoint(p)); err != nil {
			c.Incomplete("insert: " + err.Error())
			db.Close()
			return false
		}
		env.pts = append(env.pts, qPoint{Dims: p.Dims, E: int64(cell.P) * sec, A: val})
		val *= 2
		return true
	}
	// insert in period order so that nothing is older than the retention window when processed
	ordered := append([]t6Cell(nil), set...)
	sort.SliceStable(ordered, func(i, j int) bool { return ordered[i].P < ordered[j].P })
	for i, cell := range ordered {
		if !add(cell, sec/2) {
			return nil
		}
		if i == 0 && !add(cell, sec/4) {
			return nil
		}
		if (split == 2 || split == 3) && i == (len(ordered)-1)/2 {
			db.FlushAll()
		}
		if split == 3 && i == (len(ordered)-1)/2 {
			t2 := t6Table()
			t2.Fields = append([]rm.Field{{Name: "z0", Expr: rm.Agg{Kind: "SUM", Val: "zz"}}}, t2.Fields...)
			if err := db.Alter(dbdrv.Config{Tables: []dbdrv.TableDef{defOf(t2)}}); err != nil {
				c.Incomplete("alter: " + err.Error())
				db.Close()
				return nil
			}
			env.t = t2
			altered = true
		}
	}
	if split == 1 {
		db.FlushAll()
	}
	return env
}
