package props

import (
	"bytes"
	"compress/gzip"
	"context"
	"encoding/json"
	"errors"
	"fmt"
	"io"
	"net/http"
	"net/http/httptest"
	"net/url"
	"os"
	"sort"
	"strings"
	"sync"
	"time"

	"github.com/getlantern/bytemap"
	"github.com/gorilla/mux"

	"github.com/getlantern/zenodb"
	"github.com/getlantern/zenodb/common"
	"github.com/getlantern/zenodb/core"
	"github.com/getlantern/zenodb/planner"
	"github.com/getlantern/zenodb/rpc"
	"github.com/getlantern/zenodb/web"

	"verif/mc/cluster"
	"verif/mc/dbdrv"
	"verif/mc/fw"
)

// C13 — incomplete results are never presented as complete. Fault
// enumeration with a complete run (R0) as ground truth: every faulted run must
// return an error, or report the partition missing, or answer HTTP non-200, or
// return everything.

type c13Case struct {
	Part   string `json:"part"` // deadline | cluster | memory | http
	Query  int    `json:"query"`
	Row    int    `json:"row"`            // deadline expires after this many rows (-1: already expired)
	Subset int    `json:"subset"`         // bitmask of faulty partitions
	Mode   string `json:"mode,omitempty"` // cluster failure mode / http scenario
	K      int    `json:"k,omitempty"`
	P      int    `json:"p,omitempty"`
	Path   string `json:"path,omitempty"`
	SQL    string `json:"sql,omitempty"`
	// RPC: the partition handlers answer over real gRPC (rpc.Client.ProcessRemoteQuery against the leader's server)
	RPC bool `json:"rpc,omitempty"`
}

func c13Table() dbdrv.TableDef {
	return dbdrv.TableDef{Name: "t13", Stream: "s", Retention: 100 * time.Second, PartitionBy: []string{"x"},
		SQL: "SELECT SUM(a) AS a, COUNT(a) AS ca, AVG(a) AS av FROM s GROUP BY x, y, period(1s)"}
}

func c13Points() []dbdrv.Point {
	var pts []dbdrv.Point
	i := 0
	for x := 1; x <= 4; x++ {
		for _, y := range []string{"a", "b"} {
			for p := 1; p <= 2; p++ {
				if (x+p)%3 == 0 && y == "b" {
					continue
				}
				pts = append(pts, dbdrv.Point{TS: int64(p)*sec - sec/2, Dims: D("x", x, "y", y), Vals: D("a", float64(1+i))})
				i++
			}
		}
	}
	return pts
}

var c13Queries = []string{
	"SELECT * FROM t13",
	"SELECT a FROM t13",
	"SELECT * FROM t13 WHERE x > 1",
	"SELECT a, ca FROM t13 GROUP BY x",
	"SELECT a FROM t13 GROUP BY y",
	"SELECT av FROM t13 GROUP BY _",
	"SELECT a FROM t13 GROUP BY x, period(2s)",
	"SELECT a FROM t13 GROUP BY x, CROSSTAB(y)",
	"SELECT a FROM t13 GROUP BY CROSSTABT(y)",
	"SELECT a FROM t13 GROUP BY x HAVING a > 3",
	"SELECT * FROM t13 HAVING ca > 0",
	"SELECT * FROM t13 ORDER BY a DESC",
	"SELECT a FROM t13 GROUP BY x ORDER BY a",
	"SELECT * FROM t13 ORDER BY _time, a DESC",
	"SELECT * FROM t13 LIMIT 100",
	"SELECT * FROM t13 ORDER BY a LIMIT 1, 100",
	"SELECT * FROM t13 LIMIT 2, 100",
	"SELECT a FROM t13 WHERE x IN (SELECT x FROM t13 WHERE y = 'a')",
	"SELECT a FROM t13 WHERE x IN (SELECT x FROM t13 HAVING a > 2) GROUP BY y",
	"SELECT a FROM (SELECT * FROM t13 GROUP BY x, y) GROUP BY x",
	"SELECT AVG(a) AS aa FROM (SELECT a FROM t13 GROUP BY x, y) GROUP BY _",
	"SELECT a FROM (SELECT * FROM t13 GROUP BY x, y ORDER BY a) GROUP BY y",
	"SELECT SHIFT(a, '-1s') AS sa, a FROM t13 GROUP BY x",
	"SELECT a FROM t13 GROUP BY _, STRIDE(2s)",
	fmt.Sprintf("SELECT * FROM t13 ASOF '%s' UNTIL '%s'", ts(0), ts(2)),
	fmt.Sprintf("SELECT a FROM t13 ASOF '%s' GROUP BY y ORDER BY a", ts(0)),
	"SELECT a / ca AS r FROM t13 GROUP BY x, y",
	"SELECT a FROM t13 GROUP BY y HAVING a > 1 ORDER BY a DESC LIMIT 100",
	"SELECT * FROM t13 WHERE y = 'a' ORDER BY a",
	"SELECT a FROM t13 WHERE x IN (SELECT x FROM t13 WHERE y = 'b') GROUP BY x ORDER BY a",
}

func c13Standalone(c *fw.Ctx, flush bool, memRatio float64) *dbdrv.DB {
	def := c13Table()
	def.PartitionBy = nil
	db, err := dbdrv.Open(newDir(c), dbdrv.Config{Tables: []dbdrv.TableDef{def}, MaxMemoryRatio: memRatio})
	if err != nil {
		c.Incomplete("open: " + err.Error())
		return nil
	}
	for _, p := range c13Points() {
		if err := db.Insert("s", p); err != nil {
			c.Incomplete("insert: " + err.Error())
			db.Close()
			return nil
		}
	}
	if flush {
		db.FlushAll()
	}
	return db
}

// --- part 1: operator deadlines ---------------------------------------------

func c13CheckDeadline(c *fw.Ctx, db *dbdrv.DB, cs c13Case, r0 *dbdrv.Result) {
	q := c13Queries[cs.Query]
	c.Eval(1)
	var ctx context.Context
	var cancel context.CancelFunc
	const d = 25 * time.Millisecond
	if cs.Row < 0 {
		ctx, cancel = context.WithDeadline(context.Background(), time.Now().Add(-time.Second))
	} else {
		ctx, cancel = context.WithTimeout(context.Background(), d)
	}
	defer cancel()
	deadline, _ := ctx.Deadline()
	res, err := dbdrv.QueryZ(db.Z, ctx, q, true, func(i int, r *dbdrv.Row) (bool, error) {
		if i == cs.Row {
			// deterministic: the consumer itself outlasts the deadline
			if w := time.Until(deadline); w > -2*time.Millisecond {
				time.Sleep(w + 2*time.Millisecond)
			}
		}
		return true, nil
	})
	if err != nil {
		c.Outcome("error")
		if len(resRows(res)) < len(r0.Rows) {
			c.Nontrivial(fmt.Sprintf("d|%d|%d", cs.Query, cs.Row))
		}
		return
	}
	if cs.Row >= 0 && cs.Row >= len(r0.Rows) {
		// the deadline was never made to expire during this run
		c.Outcome("not-faulted")
		return
	}
	if fmt.Sprint(res.Canon()) != fmt.Sprint(r0.Canon()) {
		c.Violate("C13", "deadline-truncated-result-without-error", fmt.Sprintf("%s: deadline made to expire after row %d; no error, %d of %d rows returned:\n%v", q, cs.Row, len(res.Rows), len(r0.Rows), res.Canon()), cs)
		return
	}
	c.Outcome("complete-despite-deadline")
}

func resRows(r *dbdrv.Result) []dbdrv.Row {
	if r == nil {
		return nil
	}
	return r.Rows
}

// --- part 2: cluster partition failures --------------------------------------

// "first-handler-fails": the first handler a faulty partition offers fails, the ones behind it work - for a query
// with an IN-subquery the subquery phase meets the failing one and the main phase a working one
var c13Modes = []string{"no-handler", "error-before-rows", "error-after-k-rows", "blocks-past-timeout", "retriable-then-success", "first-handler-fails"}

var errInjected = errors.New("injected partition failure")

func c13ClusterQueries() []string {
	return []string{
		"SELECT * FROM t13",                                    // pushdown
		"SELECT a, ca FROM t13 GROUP BY x",                     // pushdown (partition key in group by)
		"SELECT a FROM t13 GROUP BY y",                         // non-pushdown
		"SELECT a FROM t13 GROUP BY x, CROSSTAB(y)",            // non-pushdown (crosstab)
		"SELECT * FROM t13 ORDER BY a DESC",                    // pushdown + order
		"SELECT a FROM t13 GROUP BY y HAVING a > 1 ORDER BY a", // non-pushdown + having
		// the IN-subquery runs on the cluster first, then the main query: two rounds of partition handlers
		"SELECT a, ca FROM t13 WHERE x IN (SELECT x FROM t13 WHERE y = 'a') GROUP BY x",
	}
}

type c13Cluster struct {
	cl *cluster.Cluster
	r0 map[string]*dbdrv.Result
	// real gRPC server in front of the leader (started on first use)
	rpcAddr string
	rpcStop func()
	// clients of the current case's handlers: a follower keeps its connection open; closing it right after the last
	// message was queued can cut the stream before the leader has read it
	rpcClients []rpc.Client
	rpcMx      sync.Mutex
}

func (cc *c13Cluster) closeClients() {
	cc.rpcMx.Lock()
	for _, rc := range cc.rpcClients {
		rc.Close()
	}
	cc.rpcClients = nil
	cc.rpcMx.Unlock()
}

func (cc *c13Cluster) close() {
	cc.closeClients()
	if cc.rpcStop != nil {
		cc.rpcStop()
	}
	cc.cl.Close()
}

// c13RegisterRPC hands every handler of the case to the leader the way a follower process does: one
// rpc.Client.ProcessRemoteQuery call per handler (each serves one query), then waits until the leader holds them.
func c13RegisterRPC(c *fw.Ctx, cc *c13Cluster, subset int, mode string, k int, perPartition int) bool {
	if cc.rpcAddr == "" {
		addr, stop, err := startRPC(cc.cl.Leaders[0].Z, 0, "pw")
		if err != nil {
			c.Incomplete("listen: " + err.Error())
			return false
		}
		cc.rpcAddr, cc.rpcStop = addr, stop
	}
	cc.closeClients()
	for p := 0; p < cc.cl.Cfg.NumPartitions; p++ {
		cc.cl.DrainHandlers(0, p)
	}
	want := map[int]int{}
	c13EachHandler(cc.cl, subset, mode, k, perPartition, func(p int, h planner.QueryClusterFN) {
		want[p]++
		go func() {
			rc, err := dialRPC(cc.rpcAddr, "pw")
			if err != nil {
				return
			}
			cc.rpcMx.Lock()
			cc.rpcClients = append(cc.rpcClients, rc)
			cc.rpcMx.Unlock()
			rc.ProcessRemoteQuery(context.Background(), p, h, 3*time.Second)
		}()
	})
	deadline := time.Now().Add(10 * time.Second)
	for p, n := range want {
		for zenodb.VerifQueryHandlerCount(cc.cl.Leaders[0].Z, p) < n {
			if time.Now().After(deadline) {
				c.Incomplete("handlers did not register over RPC in time")
				return false
			}
			time.Sleep(200 * time.Microsecond)
		}
	}
	return true
}

func c13StartCluster(c *fw.Ctx, p int) *c13Cluster {
	cl, err := cluster.Start(newDir(c), cluster.Config{Tables: []dbdrv.TableDef{c13Table()}, NumPartitions: p, ManualHandlers: true, QueryTimeout: 150 * time.Millisecond})
	if err != nil {
		c.Incomplete("cluster start: " + err.Error())
		return nil
	}
	for _, pt := range c13Points() {
		if err := cl.Insert(0, "s", pt); err != nil {
			c.Incomplete("cluster insert: " + err.Error())
			cl.Close()
			return nil
		}
	}
	if !cl.Quiesce() {
		c.Incomplete("cluster quiescence timeout")
		cl.Close()
		return nil
	}
	cl.SetClock(dbdrv.Epoch.Add(2 * time.Second))
	cc := &c13Cluster{cl: cl, r0: map[string]*dbdrv.Result{}}
	for _, q := range c13ClusterQueries() {
		var r *dbdrv.Result
		var err error
		// the fault-free baseline runs under the same (short) query timeout as the faulted runs; on a busy machine
		// it can take longer than that, so it is retried - it only serves as ground truth
		for attempt := 0; attempt < 10; attempt++ {
			c13Register(cl, 0, "", 0, 2)
			r, err = cl.QueryLeaderOnce(context.Background(), 0, q, true)
			if err == nil && r.Stats != nil && r.Stats.NumSuccessfulPartitions == p {
				break
			}
		}
		if err != nil || r.Stats == nil || r.Stats.NumSuccessfulPartitions != p {
			c.Incomplete(fmt.Sprintf("baseline cluster query %q failed: %v %+v", q, err, r))
			cl.Close()
			return nil
		}
		cc.r0[q] = r
	}
	return cc
}

// c13Register registers, for every partition, the handlers one query needs:
// faulty ones for the partitions in subset, real ones for the others.
func c13Register(cl *cluster.Cluster, subset int, mode string, k int, perPartition int) {
	// drain what earlier queries left behind, so that exactly these handlers are used
	for p := 0; p < cl.Cfg.NumPartitions; p++ {
		cl.DrainHandlers(0, p)
	}
	c13EachHandler(cl, subset, mode, k, perPartition, func(p int, h planner.QueryClusterFN) {
		cl.Leaders[0].Z.RegisterQueryHandler(p, h)
	})
}

// c13EachHandler builds the handlers of one case and passes each to register.
func c13EachHandler(cl *cluster.Cluster, subset int, mode string, k int, perPartition int, register func(p int, h planner.QueryClusterFN)) {
	for _, f := range cl.Followers {
		real := f.RealQuery
		p := f.Partition
		faulty := subset&(1<<uint(p)) != 0
		for n := 0; n < perPartition; n++ {
			var h planner.QueryClusterFN
			switch {
			case !faulty:
				h = real
			case mode == "no-handler":
				continue
			case mode == "error-before-rows", mode == "first-handler-fails" && n == 0:
				h = func(ctx context.Context, sqlString string, isSubQuery bool, subQueryResults [][]interface{}, unflat bool, onFields core.OnFields, onRow core.OnRow, onFlatRow core.OnFlatRow) (interface{}, error) {
					return nil, errInjected
				}
			case mode == "first-handler-fails":
				h = real
			case mode == "error-after-k-rows":
				h = func(ctx context.Context, sqlString string, isSubQuery bool, subQueryResults [][]interface{}, unflat bool, onFields core.OnFields, onRow core.OnRow, onFlatRow core.OnFlatRow) (interface{}, error) {
					n := 0
					var or core.OnRow
					var of core.OnFlatRow
					if onRow != nil {
						or = func(key bytemap.ByteMap, vals core.Vals) (bool, error) {
							if n >= k {
								return false, errInjected
							}
							n++
							return onRow(key, vals)
						}
					}
					if onFlatRow != nil {
						of = func(row *core.FlatRow) (bool, error) {
							if n >= k {
								return false, errInjected
							}
							n++
							return onFlatRow(row)
						}
					}
					stats, err := real(ctx, sqlString, isSubQuery, subQueryResults, unflat, onFields, or, of)
					if err == nil && n >= k {
						// the partition had no more than k rows: it simply completed
						return stats, nil
					}
					return stats, err
				}
			case mode == "blocks-past-timeout":
				h = func(ctx context.Context, sqlString string, isSubQuery bool, subQueryResults [][]interface{}, unflat bool, onFields core.OnFields, onRow core.OnRow, onFlatRow core.OnFlatRow) (interface{}, error) {
					time.Sleep(400 * time.Millisecond)
					return real(ctx, sqlString, isSubQuery, subQueryResults, unflat, onFields, onRow, onFlatRow)
				}
			case mode == "retriable-then-success":
				if n == 0 {
					h = func(ctx context.Context, sqlString string, isSubQuery bool, subQueryResults [][]interface{}, unflat bool, onFields core.OnFields, onRow core.OnRow, onFlatRow core.OnFlatRow) (interface{}, error) {
						return nil, common.MarkRetriable(errInjected)
					}
				} else {
					h = real
				}
			}
			register(p, h)
		}
	}
}

func c13CheckCluster(c *fw.Ctx, cc *c13Cluster, cs c13Case) {
	q := c13ClusterQueries()[cs.Query]
	c.Eval(1)
	if cs.RPC {
		if !c13RegisterRPC(c, cc, cs.Subset, cs.Mode, cs.K, 3) {
			return
		}
	} else {
		c13Register(cc.cl, cs.Subset, cs.Mode, cs.K, 3)
	}
	res, err := cc.cl.QueryLeaderOnce(context.Background(), 0, q, true)
	r0 := cc.r0[q]
	told := err != nil
	if res != nil && res.Stats != nil && (res.Stats.NumSuccessfulPartitions < res.Stats.NumPartitions || len(res.Stats.MissingPartitions) > 0) {
		told = true
	}
	complete := res != nil && fmt.Sprint(res.Canon()) == fmt.Sprint(r0.Canon())
	desc := fmt.Sprintf("P=%d partitions %03b %s k=%d: %s", cs.P, cs.Subset, cs.Mode, cs.K, q)
	if cs.RPC {
		desc += " (handlers answering over gRPC)"
	}
	if cs.Mode == "retriable-then-success" {
		if !complete || told {
			c.Violate("C13", "retriable-error-not-retried-to-completion", fmt.Sprintf("%s: err=%v stats=%+v rows %v, expected the complete result %v", desc, err, statsOf(res), canonOf(res), r0.Canon()), cs)
			return
		}
		c.Outcome("retried")
		c.Nontrivial(desc)
		return
	}
	if err == nil && res != nil && res.Stats != nil {
		// a partition the harness did not touch must not fail; if one does, the run says nothing about the case
		for _, mp := range res.Stats.MissingPartitions {
			if cs.Subset&(1<<uint(mp)) == 0 {
				c.Incomplete(fmt.Sprintf("%s: untouched partition %d reported missing (%+v)", desc, mp, *res.Stats))
				return
			}
		}
	}
	if !told && !complete {
		c.Violate("C13", "partition-failure-not-reported", fmt.Sprintf("%s: no error, statistics report all partitions successful (%+v), but rows differ from the complete result:\n got  %v\n want %v", desc, statsOf(res), canonOf(res), r0.Canon()), cs)
		return
	}
	if told {
		c.Nontrivial(desc)
		c.Outcome("told")
	} else {
		c.Outcome("complete")
	}
}

func statsOf(r *dbdrv.Result) interface{} {
	if r == nil || r.Stats == nil {
		return nil
	}
	return *r.Stats
}

// --- part 4: HTTP -------------------------------------------------------------

type c13HTTP struct {
	db      *dbdrv.DB
	srv     *httptest.Server
	close   func()
	dir     string
	timeout time.Duration
	maxResp int
}

func c13StartHTTP(c *fw.Ctx, db *dbdrv.DB, queryTimeout time.Duration, maxResp int) *c13HTTP {
	dir := newDir(c)
	router := mux.NewRouter()
	closeFn, err := web.Configure(db.Z, router, &web.Opts{CacheDir: dir, QueryTimeout: queryTimeout, MaxResponseBytes: maxResp, QueryConcurrencyLimit: 4})
	if err != nil {
		c.Incomplete("web.Configure: " + err.Error())
		return nil
	}
	return &c13HTTP{db: db, srv: httptest.NewServer(router), close: closeFn, dir: dir, timeout: queryTimeout, maxResp: maxResp}
}

func (h *c13HTTP) stop() {
	h.srv.Close()
	h.close()
	os.RemoveAll(h.dir)
}

type c13HTTPResult struct {
	Status int
	Body   string
	Rows   int
	Stats  *common.QueryStats
}

func (h *c13HTTP) get(path string, sql string, noCache bool) (*c13HTTPResult, error) {
	u := h.srv.URL + path
	if sql != "" {
		u += "?" + url.PathEscape(sql)
	}
	req, _ := http.NewRequest("GET", u, nil)
	if noCache {
		req.Header.Set("Cache-control", "no-cache")
	}
	tr := &http.Transport{DisableCompression: true}
	resp, err := (&http.Client{Transport: tr, Timeout: 60 * time.Second}).Do(req)
	if err != nil {
		return nil, err
	}
	defer resp.Body.Close()
	b, _ := io.ReadAll(resp.Body)
	out := &c13HTTPResult{Status: resp.StatusCode, Body: string(b), Rows: -1}
	if resp.StatusCode == 200 {
		data := b
		if gz, err := gzip.NewReader(bytes.NewReader(b)); err == nil {
			if d, err := io.ReadAll(gz); err == nil {
				data = d
			}
		}
		var qr web.QueryResult
		if err := json.Unmarshal(data, &qr); err == nil {
			out.Rows = len(qr.Rows)
			out.Stats = qr.Stats
			out.Body = string(data)
		}
	}
	return out, nil
}

var c13HTTPQueries = []string{"SELECT * FROM t13", "SELECT a, ca FROM t13 GROUP BY x", "SELECT * FROM t13 ORDER BY a DESC", "SELECT a FROM t13 GROUP BY y HAVING a > 1"}

// c13CheckHTTP: scenario = timeout | size-estimate | size-final | plan-error; every path; then the
// cached permalink and a second /run (cache hit).
func c13CheckHTTP(c *fw.Ctx, db *dbdrv.DB, cs c13Case) {
	q := c13HTTPQueries[cs.Query]
	// ground truth through a generous server
	ref := c13StartHTTP(c, db, time.Minute, 1<<20)
	if ref == nil {
		return
	}
	r0, err := ref.get("/immediate", q, true)
	ref.stop()
	if err != nil || r0.Status != 200 || r0.Rows <= 0 {
		c.Incomplete(fmt.Sprintf("baseline http query failed: %v %+v", err, r0))
		return
	}
	var h *c13HTTP
	switch cs.Mode {
	case "timeout":
		h = c13StartHTTP(c, db, time.Nanosecond, 1<<20)
	case "size-estimate":
		// the estimate trips after row K (each row adds 8 bytes per value plus the key)
		h = c13StartHTTP(c, db, time.Minute, 20+cs.K*30)
	case "size-final":
		// large enough for the estimate, too small for the JSON
		h = c13StartHTTP(c, db, time.Minute, 520)
	case "plan-error":
		h = c13StartHTTP(c, db, time.Minute, 1<<20)
		q = "SELECT nosuchfield FROM nosuchtable"
	}
	if h == nil {
		return
	}
	defer h.stop()
	c.Eval(1)
	check := func(label string, r *c13HTTPResult, err error) bool {
		if err != nil {
			c.Incomplete("http request failed: " + err.Error())
			return false
		}
		if r.Status == 202 {
			c.Count("http_still_pending", 1)
			return true
		}
		if r.Status != 200 {
			c.Outcome(fmt.Sprintf("%s-%d", cs.Mode, r.Status))
			return true
		}
		if r.Rows != r0.Rows {
			c.Violate("C13", "http-serves-truncated-result-as-success", fmt.Sprintf("%s %s (%s, K=%d): HTTP 200 with %d rows, the complete result has %d rows; body %s", label, q, cs.Mode, cs.K, r.Rows, r0.Rows, trunc(r.Body, 400)), cs)
			return false
		}
		c.Outcome(cs.Mode + "-complete")
		return true
	}
	r, err := h.get(cs.Path, q, false)
	if !check(cs.Path, r, err) {
		return
	}
	if r != nil && r.Status != 200 && r.Status != 202 {
		c.Nontrivial(fmt.Sprintf("h|%s|%s|%d|%d", cs.Path, cs.Mode, cs.K, cs.Query))
	}
	// the same query again: a cache hit must not turn the failure into a success
	r2, err := h.get("/immediate", q, false)
	if !check("second request (cache)", r2, err) {
		return
	}
	// and through the permalink, if one was handed out
	if r != nil && r.Status == 200 {
		var qr web.QueryResult
		if json.Unmarshal([]byte(r.Body), &qr) == nil && qr.Permalink != "" {
			r3, err := h.get("/cached/"+qr.Permalink, "", false)
			check("/cached/{permalink}", r3, err)
		}
	}
}

func init() {
	fw.Register(&fw.Prop{
		ID:          "C13",
		Level:       "fault_enumeration",
		NoThreads:   true,
		Rule:        "ground truth R0 = complete run. (1) operator deadlines: 30 query shapes (filter, group, crosstab, having, sort, offset, limit, IN- and FROM-subqueries, shift, stride, ranges) × deadline already expired or made to expire after row i for every i (the consumer itself sleeps past the deadline: deterministic); (2) cluster, P in {2,3}: every non-empty subset of partitions × {no handler, error before any row, error after k rows for every k, handler blocking past ClusterQueryTimeout, retriable error then success, first handler fails and the next ones work} × 7 pushdown and non-pushdown queries (one with an IN-subquery, which takes two rounds of handlers) with harness-registered handlers, and for P=2 the error modes again with the handlers answering over real gRPC (rpc.Client.ProcessRemoteQuery against the leader's server); (3) memory cap: MaxMemoryRatio 1e-12 on a 1 001-key table × 11 query shapes (bare scan, group by key / all / coarser period, filter, having, sort, limit, range, FROM- and IN-subquery) against the uncapped result; (4) HTTP via web.Configure on httptest: {QueryTimeout 1ns, response-size estimate tripping after row K for K<=6, final JSON size check, planning error} × {/immediate, /async, /run} then a second request (cache) and the permalink; oracle per faulted run: error, or partition reported missing, or HTTP status != 200, or the complete result; retriable-then-success must be complete; evaluations = faulted runs, non-trivial = faults that actually removed data or were reported",
		Assumptions: []string{"deadlines are exercised by outlasting them, never by racing them", "/run and /async wait 5 s in the web coalescer and are exercised for one query each"},
		Shards:      func(tier string) int { return 8 },
		Budget:      func(tier string) time.Duration { return 25 * time.Minute },
		Run: func(c *fw.Ctx) {
			var idx int64
			// part 1
			db := c13Standalone(c, false, 0)
			if db == nil {
				return
			}
			for qi, q := range c13Queries {
				idx++
				if !c.Mine(idx) {
					continue
				}
				r0, err := db.Query(q, true)
				if err != nil {
					c.Incomplete(fmt.Sprintf("baseline %q: %v", q, err))
					continue
				}
				for row := -1; row <= len(r0.Rows); row++ {
					cs := c13Case{Part: "deadline", Query: qi, Row: row}
					if row == 1 {
						c.Sample("deadline", map[string]interface{}{"sql": q, "deadline_expires_after_row": row})
					}
					c13CheckDeadline(c, db, cs, r0)
				}
			}
			db.Close()
			// part 3
			idx++
			if c.Mine(idx) {
				c13CheckMemory(c)
			}
			// part 2
			for _, p := range []int{2, 3} {
				idx++
				if !c.Mine(idx) {
					continue
				}
				cc := c13StartCluster(c, p)
				if cc == nil {
					continue
				}
				for qi := range c13ClusterQueries() {
					for subset := 1; subset < 1<<uint(p); subset++ {
						for _, mode := range c13Modes {
							ks := []int{0}
							if mode == "error-after-k-rows" {
								ks = []int{1, 2, 3, 4}
							}
							for _, k := range ks {
								if c.Expired() {
									c.Incomplete("time budget used up")
									cc.cl.Close()
									return
								}
								cs := c13Case{Part: "cluster", Query: qi, Subset: subset, Mode: mode, K: k, P: p}
								if mode == "error-after-k-rows" && k == 1 {
									c.Sample("cluster", cs)
								}
								c13CheckCluster(c, cc, cs)
							}
						}
					}
				}
				if p == 2 {
					// the same failures with the handlers answering over real gRPC (the follower reports its
					// error on the final message of the stream)
					for qi := range c13ClusterQueries() {
						for subset := 1; subset < 1<<uint(p); subset++ {
							for _, mk := range []struct {
								mode string
								k    int
							}{{"error-before-rows", 0}, {"error-after-k-rows", 1}, {"error-after-k-rows", 2}} {
								// (no retriable-then-success here: whether an error is retriable is the leader's
								// judgement about its connection, it does not travel over the wire)
								if c.Expired() {
									c.Incomplete("time budget used up")
									cc.close()
									return
								}
								cs := c13Case{Part: "cluster", Query: qi, Subset: subset, Mode: mk.mode, K: mk.k, P: p, RPC: true}
								c.Sample("cluster-rpc", cs)
								c13CheckCluster(c, cc, cs)
							}
						}
					}
				}
				cc.close()
			}
			// part 4
			hdb := c13Standalone(c, true, 0)
			if hdb == nil {
				return
			}
			defer hdb.Close()
			type hc struct {
				mode string
				k    int
			}
			var hcs []hc
			hcs = append(hcs, hc{"timeout", 0}, hc{"size-final", 0}, hc{"plan-error", 0})
			for k := 0; k <= 6; k++ {
				hcs = append(hcs, hc{"size-estimate", k})
			}
			var wg sync.WaitGroup
			for qi := range c13HTTPQueries {
				for _, x := range hcs {
					for _, path := range []string{"/immediate", "/async", "/run"} {
						if path != "/immediate" && !(qi == 0 && (x.mode == "timeout" || x.mode == "size-estimate" && x.k == 2)) {
							continue
						}
						idx++
						if !c.Mine(idx) {
							continue
						}
						cs := c13Case{Part: "http", Query: qi, Mode: x.mode, K: x.k, Path: path}
						c.Sample("http", cs)
						if path == "/immediate" {
							c13CheckHTTP(c, hdb, cs)
						} else {
							wg.Add(1)
							go func() { defer wg.Done(); c13CheckHTTP(c, hdb, cs) }()
						}
					}
				}
			}
			wg.Wait()
			c.R.Bound = "all parts as described"
		},
		Replay: func(c *fw.Ctx, raw json.RawMessage) {
			var cs c13Case
			if json.Unmarshal(raw, &cs) != nil {
				return
			}
			switch cs.Part {
			case "deadline":
				db := c13Standalone(c, false, 0)
				if db == nil {
					return
				}
				defer db.Close()
				r0, err := db.Query(c13Queries[cs.Query], true)
				if err == nil {
					c13CheckDeadline(c, db, cs, r0)
				}
			case "cluster":
				cc := c13StartCluster(c, cs.P)
				if cc == nil {
					return
				}
				defer cc.close()
				c13CheckCluster(c, cc, cs)
			case "memory":
				c13CheckMemory(c)
			case "http":
				db := c13Standalone(c, true, 0)
				if db == nil {
					return
				}
				defer db.Close()
				c13CheckHTTP(c, db, cs)
			}
		},
	})
	_ = sort.Strings
	_ = strings.Join
}

// --- part 3: memory cap ---------------------------------------------------------

func c13CheckMemory(c *fw.Ctx) {
	def := dbdrv.TableDef{Name: "tm", Stream: "s", Retention: 100 * time.Second, SQL: "SELECT SUM(a) AS a FROM s GROUP BY k, period(1s)"}
	// load and flush with no cap (with the cap every insert forces a GC and a flush), then reopen capped
	db, err := dbdrv.Open(newDir(c), dbdrv.Config{Tables: []dbdrv.TableDef{def}})
	if err != nil {
		c.Incomplete("open: " + err.Error())
		return
	}
	defer func() { db.Close() }()
	const n = 1001
	for i := 0; i < n; i++ {
		if err := db.InsertNoWait("s", dbdrv.Point{TS: sec / 2, Dims: D("k", i), Vals: D("a", 1.0)}); err != nil {
			c.Incomplete("insert: " + err.Error())
			return
		}
	}
	if !db.Quiesce() {
		c.Incomplete("quiescence timeout (memory part)")
		return
	}
	db.FlushAll()
	// query shapes with and without a group stage, sort, filter, subqueries: whichever operator sits above the scan
	// when the cap trips, the error has to reach the caller
	queries := []string{
		"SELECT * FROM tm",
		"SELECT a FROM tm GROUP BY k",
		"SELECT a FROM tm GROUP BY _",
		"SELECT a FROM tm WHERE k >= 0 GROUP BY k",
		"SELECT a FROM tm GROUP BY k HAVING a > 0",
		"SELECT a FROM tm GROUP BY k ORDER BY a",
		"SELECT a FROM tm GROUP BY k ORDER BY k LIMIT 2000",
		"SELECT a FROM tm GROUP BY k, period(2s)",
		"SELECT a FROM tm ASOF '2019-12-31T23:59:00Z' UNTIL '2020-01-01T00:00:01Z'",
		"SELECT a FROM (SELECT a FROM tm GROUP BY k) GROUP BY _",
		"SELECT a FROM tm WHERE k IN (SELECT k FROM tm) GROUP BY k",
	}
	r0 := map[string]*dbdrv.Result{}
	for _, q := range queries {
		r, err := db.Query(q, true)
		if err != nil {
			c.Incomplete(fmt.Sprintf("uncapped run of %q: %v", q, err))
			return
		}
		r0[q] = r
	}
	db.Cfg.MaxMemoryRatio = 1e-12
	if err := db.Restart(); err != nil {
		c.Incomplete("restart with memory cap: " + err.Error())
		return
	}
	for _, q := range queries {
		c.Eval(1)
		res, err := db.Query(q, true)
		cs := c13Case{Part: "memory", SQL: q}
		if err == nil && fmt.Sprint(res.Canon()) != fmt.Sprint(r0[q].Canon()) {
			c.Violate("C13", "memory-cap-truncated-result-without-error", fmt.Sprintf("%s: memory cap exceeded during a scan of %d keys: no error, %d rows, but the complete result has %d rows (or other values)", q, n, len(res.Rows), len(r0[q].Rows)), cs)
			return
		}
		if err != nil {
			c.Nontrivial("memory-cap " + q)
			c.Outcome("memory-error")
		} else {
			c.Outcome("memory-complete")
		}
	}
}
