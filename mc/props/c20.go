package props

import (
	"bytes"
	"context"
	"encoding/json"
	"fmt"
	"reflect"
	"strings"
	"time"

	"github.com/getlantern/bytemap"
	"github.com/getlantern/wal"
	"github.com/getlantern/zenodb/common"
	"github.com/getlantern/zenodb/core"
	"github.com/getlantern/zenodb/encoding"
	"github.com/getlantern/zenodb/expr"
	"github.com/getlantern/zenodb/rpc"

	"verif/mc/cluster"
	"verif/mc/dbdrv"
	"verif/mc/fw"
)

// C20 — data crossing the RPC boundary keeps its meaning.

type c20Case struct {
	Part    string `json:"part"` // codec | values | e2e | e2e-cluster
	Depth   int    `json:"depth,omitempty"`
	Index   int    `json:"index"`
	Desc    string `json:"desc,omitempty"`
	Dataset int    `json:"dataset,omitempty"`
	SQL     string `json:"sql,omitempty"`
}

func c20RoundTripField(f core.Field) (core.Field, error) {
	b, err := rpc.Codec.Marshal(&rpc.RemoteQueryResult{Fields: core.Fields{f}})
	if err != nil {
		return core.Field{}, fmt.Errorf("marshal: %v", err)
	}
	out := &rpc.RemoteQueryResult{}
	if err := rpc.Codec.Unmarshal(b, out); err != nil {
		return core.Field{}, fmt.Errorf("unmarshal: %v", err)
	}
	if len(out.Fields) != 1 {
		return core.Field{}, fmt.Errorf("decoded %d fields", len(out.Fields))
	}
	return out.Fields[0], nil
}

func c20CheckCodec(c *fw.Ctx, g genExpr, cs c20Case) {
	c.Eval(1)
	orig := core.NewField("f", g.E)
	var dec core.Field
	var err error
	func() {
		defer func() {
			if p := recover(); p != nil {
				err = fmt.Errorf("PANIC: %v", p)
			}
		}()
		dec, err = c20RoundTripField(orig)
	}()
	fail := func(key, msg string) {
		c.Violate("C20", key, fmt.Sprintf("%s: %s", g.Desc, msg), cs)
	}
	if err != nil {
		fail("codec-error", err.Error())
		return
	}
	if dec.Expr == nil {
		fail("codec-lost-expression", "decoded expression is nil")
		return
	}
	if dec.Name != orig.Name || dec.Expr.String() != orig.Expr.String() {
		fail("codec-changes-text", fmt.Sprintf("decoded %q (%s), original %q (%s)", dec.Name, dec.Expr.String(), orig.Name, orig.Expr.String()))
		return
	}
	if dec.Expr.EncodedWidth() != orig.Expr.EncodedWidth() {
		fail("codec-changes-width", fmt.Sprintf("decoded width %d, original %d", dec.Expr.EncodedWidth(), orig.Expr.EncodedWidth()))
		return
	}
	if (dec.Expr.Validate() == nil) != (orig.Expr.Validate() == nil) {
		fail("codec-changes-validity", fmt.Sprintf("decoded Validate()=%v, original %v", dec.Expr.Validate(), orig.Expr.Validate()))
		return
	}
	if dec.Expr.Shift() != orig.Expr.Shift() || dec.Expr.IsConstant() != orig.Expr.IsConstant() {
		fail("codec-changes-shift-or-constness", fmt.Sprintf("decoded shift %v const %v, original %v %v", dec.Expr.Shift(), dec.Expr.IsConstant(), orig.Expr.Shift(), orig.Expr.IsConstant()))
		return
	}
	// behavioural equality: same updates and merges give the same bytes and values
	alpha := c05UpdateAlphabet()
	maxLen := 2
	if c.Thorough() || orig.Expr.EncodedWidth() < 200 {
		maxLen = 3
	}
	run := func(e expr.Expr, ups []c05Update) (b []byte, err error) {
		defer func() {
			if p := recover(); p != nil {
				err = fmt.Errorf("PANIC: %v", p)
			}
		}()
		return c05Accumulate(e, ups), nil
	}
	for n := 1; n <= maxLen; n++ {
		total := ipow(len(alpha), n)
		for si := int64(0); si < total; si++ {
			seq := seqFromIndex(si, len(alpha), n)
			ups := make([]c05Update, n)
			for i, s := range seq {
				ups[i] = alpha[s]
			}
			bo, err1 := run(orig.Expr, ups)
			bd, err2 := run(dec.Expr, ups)
			if err1 != nil || err2 != nil {
				if (err1 != nil) != (err2 != nil) {
					fail("codec-changes-behaviour", fmt.Sprintf("updates %v: original err=%v, decoded err=%v", ups, err1, err2))
					return
				}
				continue
			}
			if !bytes.Equal(bo, bd) {
				fail("codec-changes-behaviour", fmt.Sprintf("updates %v produce different accumulator bytes", ups))
				return
			}
			vo, oko, _ := orig.Expr.Get(bo)
			vd, okd, _ := dec.Expr.Get(bd)
			if oko != okd || (oko && !valEq(vo, vd)) {
				fail("codec-changes-behaviour", fmt.Sprintf("updates %v: decoded Get = %v (%v), original %v (%v)", ups, vd, okd, vo, oko))
				return
			}
			if n >= 2 {
				// the leader merges follower-supplied series with follower-supplied expressions
				half := n / 2
				xo, _ := run(orig.Expr, ups[:half])
				yo, _ := run(orig.Expr, ups[half:])
				mo := c05Merge(orig.Expr, xo, yo)
				md := c05Merge(dec.Expr, xo, yo)
				if !bytes.Equal(mo, md) {
					fail("codec-changes-behaviour", fmt.Sprintf("updates %v: decoded expression merges original states differently", ups))
					return
				}
			}
		}
	}
	c.Nontrivial(g.Desc)
	c.Outcome(fmt.Sprintf("%T", g.E))
}

// ---- values ---------------------------------------------------------------------

func c20CheckValues(c *fw.Ctx) {
	rt := func(in, out interface{}) error {
		b, err := rpc.Codec.Marshal(in)
		if err != nil {
			return err
		}
		return rpc.Codec.Unmarshal(b, out)
	}
	fail := func(i int, what, msg string) {
		c.Violate("C20", "value-round-trip-"+what, msg, c20Case{Part: "values", Index: i, Desc: what})
	}
	// dim / value maps over every scalar type bytemap supports
	scalars := []interface{}{true, false, byte(7), uint16(300), uint32(70000), uint64(1 << 40), uint(9), int8(-3), int16(-300), int32(-70000), int64(-1 << 40), int(42), float32(1.5), float64(-2.25), "", "str", time.Date(2020, 1, 2, 3, 4, 5, 0, time.UTC), nil}
	for i, v := range scalars {
		c.Eval(1)
		dims := bytemap.New(map[string]interface{}{"d": v, "other": "x"})
		vals := bytemap.New(map[string]interface{}{"v": v})
		in := &rpc.Insert{Stream: "s", TS: 12345, Dims: dims, Vals: vals}
		out := &rpc.Insert{}
		if err := rt(in, out); err != nil {
			fail(i, "insert", fmt.Sprintf("%T %v: %v", v, v, err))
			continue
		}
		if out.Stream != in.Stream || out.TS != in.TS || !bytes.Equal(out.Dims, in.Dims) || !bytes.Equal(out.Vals, in.Vals) {
			fail(i, "insert", fmt.Sprintf("%T %v: decoded insert differs", v, v))
			continue
		}
		if !reflect.DeepEqual(bytemap.ByteMap(out.Dims).AsMap(), dims.AsMap()) {
			fail(i, "insert", fmt.Sprintf("%T %v: decoded dims %v", v, v, bytemap.ByteMap(out.Dims).AsMap()))
		}
		// flat rows and keys
		row := &core.FlatRow{TS: dbdrv.Epoch.UnixNano() + int64(i), Key: dims, Values: []float64{1.5, 0, -3, 1e300}}
		rr := &rpc.RemoteQueryResult{Row: row}
		rr2 := &rpc.RemoteQueryResult{}
		if err := rt(rr, rr2); err != nil || rr2.Row == nil {
			fail(i, "flatrow", fmt.Sprintf("%T: %v", v, err))
			continue
		}
		if rr2.Row.TS != row.TS || !bytes.Equal(rr2.Row.Key, row.Key) || !reflect.DeepEqual(rr2.Row.Values, row.Values) {
			fail(i, "flatrow", fmt.Sprintf("%T: decoded row %+v, original %+v", v, rr2.Row, row))
		}
		c.Nontrivial(fmt.Sprintf("scalar %T", v))
	}
	// raw series
	e := expr.SUM(expr.FIELD("a"))
	seq := encoding.NewSequence(e.EncodedWidth(), 3)
	seq.SetUntil(dbdrv.Epoch.Add(3 * time.Second))
	seq.UpdateValueAt(0, e, expr.Map{"a": 5}, nil)
	seq.UpdateValueAt(2, e, expr.Map{"a": 7}, nil)
	c.Eval(1)
	rv := &rpc.RemoteQueryResult{Key: bytemap.New(map[string]interface{}{"x": 1}), Vals: core.Vals{seq, nil, encoding.Sequence{}}}
	rv2 := &rpc.RemoteQueryResult{}
	if err := rt(rv, rv2); err != nil {
		fail(0, "vals", err.Error())
	} else if len(rv2.Vals) != 3 || !bytes.Equal(rv2.Vals[0], seq) || len(rv2.Vals[1]) != 0 || len(rv2.Vals[2]) != 0 || !bytes.Equal(rv2.Key, rv.Key) {
		fail(0, "vals", fmt.Sprintf("decoded vals %v", rv2.Vals))
	}
	// what Marshal returns is handed to the transport, which may still be sending it when the next message is
	// encoded (gRPC queues all but the first HTTP/2 frame by reference): it must not change afterwards
	c.Eval(1)
	bigSeq := encoding.NewSequence(e.EncodedWidth(), 6000)
	bigSeq.SetUntil(dbdrv.Epoch.Add(6000 * time.Second))
	bigSeq.UpdateValueAt(0, e, expr.Map{"a": 1}, nil)
	bigSeq.UpdateValueAt(5999, e, expr.Map{"a": 2}, nil)
	otherSeq := encoding.NewSequence(e.EncodedWidth(), 6000)
	otherSeq.SetUntil(dbdrv.Epoch.Add(6000 * time.Second))
	otherSeq.UpdateValueAt(3000, e, expr.Map{"a": 64}, nil)
	otherSeq.UpdateValueAt(5999, e, expr.Map{"a": 128}, nil)
	first, err1 := rpc.Codec.Marshal(&rpc.RemoteQueryResult{Key: bytemap.New(map[string]interface{}{"x": 1}), Vals: core.Vals{bigSeq}})
	snapshot := append([]byte(nil), first...)
	_, err2 := rpc.Codec.Marshal(&rpc.RemoteQueryResult{Key: bytemap.New(map[string]interface{}{"x": 2}), Vals: core.Vals{otherSeq}})
	if err1 != nil || err2 != nil {
		fail(0, "marshal-big", fmt.Sprint(err1, err2))
	} else if !bytes.Equal(first, snapshot) {
		fail(0, "encoded-message-overwritten-by-the-next-one", "the bytes returned by Marshal for one raw-series message changed when the next message was marshalled")
	} else {
		back := &rpc.RemoteQueryResult{}
		if err := rpc.Codec.Unmarshal(first, back); err != nil || len(back.Vals) != 1 || !bytes.Equal(back.Vals[0], bigSeq) {
			fail(0, "vals-big", fmt.Sprintf("48 KB series does not survive: err=%v", err))
		}
	}
	// stats, metadata, query, follow
	c.Eval(4)
	st := &rpc.RemoteQueryResult{Stats: &common.QueryStats{NumPartitions: 3, NumSuccessfulPartitions: 2, LowestHighWaterMark: 5, HighestHighWaterMark: 9, MissingPartitions: []int{1}}, EndOfResults: true, Error: "boom"}
	st2 := &rpc.RemoteQueryResult{}
	if err := rt(st, st2); err != nil || !reflect.DeepEqual(st.Stats, st2.Stats) || !st2.EndOfResults || st2.Error != "boom" {
		fail(0, "stats", fmt.Sprintf("decoded %+v err=%v", st2.Stats, err))
	}
	md := &common.QueryMetaData{FieldNames: []string{"a", "b"}, AsOf: dbdrv.Epoch, Until: dbdrv.Epoch.Add(time.Hour), Resolution: 5 * time.Second, Plan: "plan"}
	md2 := &common.QueryMetaData{}
	if err := rt(md, md2); err != nil || !reflect.DeepEqual(md.FieldNames, md2.FieldNames) || !md.AsOf.Equal(md2.AsOf) || !md.Until.Equal(md2.Until) || md.Resolution != md2.Resolution || md.Plan != md2.Plan {
		fail(0, "metadata", fmt.Sprintf("decoded %+v err=%v", md2, err))
	}
	for _, hasDeadline := range []bool{false, true} {
		q := &rpc.Query{SQLString: "SELECT 1", IsSubQuery: true, SubQueryResults: [][]interface{}{{1, "a"}, {}}, IncludeMemStore: true, Unflat: true, HasDeadline: hasDeadline}
		if hasDeadline {
			q.Deadline = dbdrv.Epoch.Add(time.Minute)
		}
		q2 := &rpc.Query{}
		if err := rt(q, q2); err != nil || q2.SQLString != q.SQLString || q2.IsSubQuery != q.IsSubQuery || q2.IncludeMemStore != q.IncludeMemStore || q2.Unflat != q.Unflat || q2.HasDeadline != q.HasDeadline || !q2.Deadline.Equal(q.Deadline) || len(q2.SubQueryResults) != 2 {
			fail(0, "query", fmt.Sprintf("decoded %+v err=%v", q2, err))
		} else if len(q2.SubQueryResults[0]) != 2 || fmt.Sprint(q2.SubQueryResults[0][1]) != "a" {
			fail(0, "query", fmt.Sprintf("decoded subquery results %v", q2.SubQueryResults))
		}
	}
	off := wal.NewOffset(123456, 789)
	fo := &common.Follow{FollowerID: common.FollowerID{Partition: 2, ID: 1}, Stream: "s", EarliestOffset: off,
		Partitions: map[string]*common.Partition{"x|y": {Keys: []string{"x", "y"}, Tables: []*common.PartitionTable{{Name: "t", Offsets: common.OffsetsBySource{0: off, 3: wal.NewOffset(1, 2)}}}}}}
	fo2 := &common.Follow{}
	if err := rt(fo, fo2); err != nil || fo2.FollowerID != fo.FollowerID || fo2.Stream != "s" || !bytes.Equal(fo2.EarliestOffset, off) || fo2.Partitions["x|y"] == nil ||
		!reflect.DeepEqual(fo2.Partitions["x|y"].Keys, []string{"x", "y"}) || len(fo2.Partitions["x|y"].Tables) != 1 || !bytes.Equal(fo2.Partitions["x|y"].Tables[0].Offsets[3], wal.NewOffset(1, 2)) {
		fail(0, "follow", fmt.Sprintf("decoded %+v err=%v", fo2, err))
	}
	pt := &rpc.Point{Data: []byte{1, 2, 3}, Offset: off}
	pt2 := &rpc.Point{}
	if err := rt(pt, pt2); err != nil || !bytes.Equal(pt2.Data, pt.Data) || !bytes.Equal(pt2.Offset, off) {
		fail(0, "point", fmt.Sprintf("decoded %+v err=%v", pt2, err))
	}
}

// ---- end to end ---------------------------------------------------------------------

func c20RPCQuery(cl rpc.Client, sql string) (*dbdrv.Result, error) {
	ctx, cancel := context.WithTimeout(context.Background(), 20*time.Second)
	defer cancel()
	md, iterate, err := cl.Query(ctx, sql, true)
	if err != nil {
		return nil, err
	}
	res := &dbdrv.Result{Fields: md.FieldNames, AsOf: md.AsOf, Until: md.Until, Resolution: md.Resolution}
	stats, err := iterate(func(row *core.FlatRow) (bool, error) {
		res.Rows = append(res.Rows, dbdrv.Row{TS: row.TS - dbdrv.Epoch.UnixNano(), Key: row.Key.AsMap(), Vals: append([]float64(nil), row.Values...)})
		return true, nil
	})
	res.Stats = stats
	return res, err
}

func c20CheckE2E(c *fw.Ctx, ds int) {
	def := c10Tables()[1]
	def.PartitionBy = nil
	db, err := dbdrv.Open(newDir(c), dbdrv.Config{Tables: []dbdrv.TableDef{def}})
	if err != nil {
		c.Incomplete("open: " + err.Error())
		return
	}
	defer db.Close()
	for i, p := range c10FixedDatasets()[ds] {
		db.Insert("s", c10Point(i, p))
	}
	addr, stop, err := startRPC(db.Z, 0, "pw")
	if err != nil {
		c.Incomplete("listen: " + err.Error())
		return
	}
	defer stop()
	cl, err := dialRPC(addr, "pw")
	if err != nil {
		c.Incomplete("dial: " + err.Error())
		return
	}
	defer cl.Close()
	for qi, q := range c10Queries("tx") {
		c.Eval(1)
		cs := c20Case{Part: "e2e", Index: qi, Dataset: ds, SQL: q}
		want, werr := db.Query(q, true)
		got, gerr := c20RPCQuery(cl, q)
		if (werr != nil) != (gerr != nil) {
			c.Violate("C20", "rpc-query-error-differs", fmt.Sprintf("%s: over RPC err=%v, embedded err=%v", q, gerr, werr), cs)
			continue
		}
		if werr != nil {
			continue
		}
		if fmt.Sprint(got.Fields) != fmt.Sprint(want.Fields) || !got.AsOf.Equal(want.AsOf) || !got.Until.Equal(want.Until) || got.Resolution != want.Resolution {
			c.Violate("C20", "rpc-query-metadata-differs", fmt.Sprintf("%s: over RPC fields %v window (%v, %v] res %v; embedded %v (%v, %v] %v", q, got.Fields, got.AsOf, got.Until, got.Resolution, want.Fields, want.AsOf, want.Until, want.Resolution), cs)
			continue
		}
		same := fmt.Sprint(rowsInOrder(got)) == fmt.Sprint(rowsInOrder(want))
		if !hasOrderBy(q) {
			same = fmt.Sprint(got.Canon()) == fmt.Sprint(want.Canon())
			if hasLimit(q) {
				same = len(got.Rows) == len(want.Rows)
			}
		}
		if !same {
			c.Violate("C20", "rpc-query-rows-differ", fmt.Sprintf("%s:\nover RPC %v\nembedded %v", q, rowsInOrder(got), rowsInOrder(want)), cs)
			continue
		}
		if len(want.Rows) > 0 {
			c.Nontrivial(fmt.Sprintf("e2e|%d|%s", ds, q))
		}
		c.Outcome(fmt.Sprintf("e2e|%s|%d", q, len(want.Rows)))
	}
}

// c20CheckCluster: the follower answers on behalf of the leader over real gRPC
// (leader rpcserver, follower ProcessRemoteQuery).
// c20BigDataset selects the long-series dataset of the cluster part.
const c20BigDataset = 3

func c20CheckCluster(c *fw.Ctx, ds int) {
	base := newDir(c)
	defer removeDir(base)
	tdef := c10Tables()[1]
	if ds == c20BigDataset {
		// long series: every key has a point in the first and in the last period of a three-hour retention window,
		// so each raw (unflat) row a follower returns is far larger than one HTTP/2 frame
		tdef.Retention = 3 * time.Hour
	}
	cl, err := cluster.Start(base+"/c", cluster.Config{Tables: []dbdrv.TableDef{tdef}, NumPartitions: 2, ManualHandlers: true, QueryTimeout: 60 * time.Second})
	if err != nil {
		c.Incomplete("cluster start: " + err.Error())
		return
	}
	defer cl.Close()
	sdef := tdef
	sdef.PartitionBy = nil
	sdb, err := dbdrv.Open(base+"/s", dbdrv.Config{Tables: []dbdrv.TableDef{sdef}})
	if err != nil {
		c.Incomplete("standalone: " + err.Error())
		return
	}
	defer sdb.Close()
	if ds == c20BigDataset {
		n := 0
		for _, tsv := range []int64{sec / 2, 2*3600*sec + sec/2} {
			for k := 1; k <= 8; k++ {
				pt := dbdrv.Point{TS: tsv, Dims: map[string]interface{}{"x": k, "y": string(rune('a' + k%3)), "r": "A"}, Vals: map[string]interface{}{"a": float64(int(1) << uint(n))}}
				n++
				cl.Insert(0, "s", pt)
				sdb.Insert("s", pt)
			}
		}
	} else {
		for i, p := range c10FixedDatasets()[ds] {
			pt := c10Point(i, p)
			cl.Insert(0, "s", pt)
			sdb.Insert("s", pt)
		}
	}
	if !cl.Quiesce() {
		c.Incomplete("cluster quiescence timeout")
		return
	}
	cl.SetClock(sdb.Now)
	addr, stop, err := startRPC(cl.Leaders[0].Z, 0, "pw")
	if err != nil {
		c.Incomplete("listen: " + err.Error())
		return
	}
	defer stop()
	stopHandlers := make(chan struct{})
	defer close(stopHandlers)
	for _, f := range cl.Followers {
		f := f
		for w := 0; w < 3; w++ {
			go func() {
				rc, err := dialRPC(addr, "pw")
				if err != nil {
					return
				}
				defer rc.Close()
				for {
					select {
					case <-stopHandlers:
						return
					default:
					}
					rc.ProcessRemoteQuery(context.Background(), f.Partition, f.RealQuery, 500*time.Millisecond)
				}
			}()
		}
	}
	time.Sleep(300 * time.Millisecond)
	queries := c10Queries("tx")
	if ds == c20BigDataset {
		// raw series travel for queries the leader has to merge itself (no whole pushdown); flat ones as a control
		queries = []string{"SELECT a, av FROM tx GROUP BY y", "SELECT a, mx FROM tx GROUP BY _", "SELECT a FROM tx GROUP BY y, period(1h)", "SELECT a FROM tx GROUP BY x, CROSSTAB(y)", "SELECT a, ca FROM tx GROUP BY x", "SELECT a FROM tx GROUP BY y HAVING a > 2 ORDER BY a DESC"}
	}
	for qi, q := range queries {
		c.Eval(1)
		cs := c20Case{Part: "e2e-cluster", Index: qi, Dataset: ds, SQL: q}
		want, werr := sdb.Query(q, true)
		got, gerr := cl.QueryLeader(0, q, true)
		if (werr != nil) != (gerr != nil) {
			c.Violate("C20", "rpc-cluster-query-error-differs", fmt.Sprintf("%s: via follower over RPC err=%v, standalone err=%v", q, gerr, werr), cs)
			continue
		}
		if werr != nil {
			continue
		}
		if got.Stats != nil && got.Stats.NumSuccessfulPartitions < got.Stats.NumPartitions {
			c.Incomplete(fmt.Sprintf("%s: partitions missing over RPC (%+v): handler availability, not a codec matter", q, got.Stats))
			continue
		}
		if strings.Contains(q, "LIMIT 1, 2") {
			continue // known finding D13 (pushdown OFFSET), C10's subject
		}
		same := fmt.Sprint(got.Fields) == fmt.Sprint(want.Fields)
		if same {
			if hasOrderBy(q) {
				keys := c10OrderKeys(q)
				var gk, wk []string
				for i := range got.Rows {
					gk = append(gk, keyTuple(got, &got.Rows[i], keys))
				}
				for i := range want.Rows {
					wk = append(wk, keyTuple(want, &want.Rows[i], keys))
				}
				same = fmt.Sprint(gk) == fmt.Sprint(wk)
			} else if hasLimit(q) {
				same = len(got.Rows) == len(want.Rows)
			} else {
				same = fmt.Sprint(got.Canon()) == fmt.Sprint(want.Canon())
			}
		}
		if !same {
			c.Violate("C20", "rpc-cluster-query-rows-differ", fmt.Sprintf("%s:\nvia follower over RPC %v %v\nstandalone %v %v", q, got.Fields, got.Canon(), want.Fields, want.Canon()), cs)
			continue
		}
		if len(want.Rows) > 0 {
			c.Nontrivial(fmt.Sprintf("e2ec|%d|%s", ds, q))
		}
		c.Outcome(fmt.Sprintf("e2ec|%s|%d", q, len(want.Rows)))
	}
}

func init() {
	fw.Register(&fw.Prop{
		ID:          "C20",
		Level:       "exploration",
		NoThreads:   true,
		Rule:        "(1) codec: every Validate()-passing expression tree of C05's generator (depth <=2 quick / <=3 thorough: aggregates plain and BOUNDED, PERCENTILE, IF with a dim condition, SHIFT, unary math, all binary ops) as a core.Field through rpc.Codec inside RemoteQueryResult.Fields: same name, text, width, validity, shift, constness, and behavioural equality (identical accumulator bytes and Get values for every update sequence of length <=3 over 8 updates; decoded expression merging original states); (2) values: every scalar type bytemap supports as dim and value through Insert and FlatRow, raw series, QueryStats, QueryMetaData, Query with and without deadline, Follow with offsets, Point; (3) end to end over real gRPC on 127.0.0.1: 20 queries × 3 datasets embedded vs rpc client/server (plus a long-series dataset whose raw rows exceed an HTTP/2 frame many times) (rows, order, field names, window, resolution), and the same through a follower answering on behalf of the leader via ProcessRemoteQuery (pushdown and non-pushdown) vs a standalone DB; non-trivial = expression with behaviour checked / query with rows",
		Assumptions: []string{"handler availability over RPC (a partition without a connected handler) is C13's subject: such runs are marked incomplete, not violations"},
		Shards:      func(tier string) int { return 8 },
		Budget:      func(tier string) time.Duration { return 30 * time.Minute },
		Run: func(c *fw.Ctx) {
			depth := 2
			if c.Thorough() {
				depth = 3
			}
			var idx int64
			for i, g := range genExprs(depth) {
				idx++
				if !c.Mine(idx) {
					continue
				}
				if c.Expired() {
					c.Incomplete("time budget used up")
					return
				}
				if i%400 == 0 {
					c.Sample("codec", g.Desc)
				}
				c20CheckCodec(c, g, c20Case{Part: "codec", Depth: depth, Index: i, Desc: g.Desc})
			}
			idx++
			if c.Mine(idx) {
				c20CheckValues(c)
			}
			for ds := 0; ds < 3; ds++ {
				idx++
				if c.Mine(idx) {
					c.Sample("e2e", map[string]interface{}{"dataset": ds, "queries": c10Queries("tx")[:3]})
					c20CheckE2E(c, ds)
				}
				idx++
				if c.Mine(idx) {
					c20CheckCluster(c, ds)
				}
			}
			idx++
			if c.Mine(idx) {
				c20CheckCluster(c, c20BigDataset)
			}
			c.R.Bound = fmt.Sprintf("expression depth %d", depth)
		},
		Replay: func(c *fw.Ctx, raw json.RawMessage) {
			var cs c20Case
			if json.Unmarshal(raw, &cs) != nil {
				return
			}
			switch cs.Part {
			case "codec":
				exprs := genExprs(cs.Depth)
				if cs.Index < len(exprs) {
					c20CheckCodec(c, exprs[cs.Index], cs)
				}
			case "values":
				c20CheckValues(c)
			case "e2e":
				c20CheckE2E(c, cs.Dataset)
			case "e2e-cluster":
				c20CheckCluster(c, cs.Dataset)
			}
		},
	})
}
