package props

import (
	"encoding/json"
	"fmt"
	"math"
	"strings"
	"time"

	"verif/mc/dbdrv"
	"verif/mc/fw"
)

// C07 — ASOF/UNTIL return exactly the periods inside the requested window.

type c07Case struct {
	Dataset  []t6Cell `json:"dataset"`
	Split    int      `json:"split"`
	NowHalf  int      `json:"now_half_s"`
	AsOf     string   `json:"asof"`  // "" absent, "abs:<half seconds>" or "rel:<duration>"
	Until    string   `json:"until"` // same
	Grouping int      `json:"grouping"`
}

// grouping 4 names the field added by the altered storage mode first (only run there)
var c07Groupings = []string{"SELECT * FROM t6%s", "SELECT a, av FROM t6%s GROUP BY x", "SELECT * FROM t6%s GROUP BY period(2s)", "SELECT a FROM t6%s GROUP BY _, period(3s)", "SELECT z0, a, ca FROM t6%s"}
var c07GroupBys = [][]string{nil, {"x"}, nil, {"_"}, nil}

// groupings 5 and 6: the outer range applies to a FROM-subquery that has an absolute range of its own (half seconds)
const c07NestedFirst = 5

var c07NestedInner = [][2]int{{0, 8}, {2, 6}}

func c07Grid() []string {
	g := []string{}
	for h := -2; h <= 14; h++ {
		g = append(g, fmt.Sprintf("abs:%d", h))
	}
	return append(g, "rel:-1s", "rel:-2500ms", "rel:-5s")
}

func c07Instant(spec string, now int64) (int64, string) {
	if strings.HasPrefix(spec, "abs:") {
		var h int
		fmt.Sscanf(spec[4:], "%d", &h)
		v := int64(h) * sec / 2
		return v, dbdrv.Epoch.Add(time.Duration(v)).Format(time.RFC3339Nano)
	}
	d, _ := time.ParseDuration(spec[4:])
	return now + int64(d), spec[4:]
}

// c07CheckNested: an outer range over a FROM-subquery with a range of its own must select what a direct query with the
// intersection of the two ranges selects (relative outer offsets count from the database clock, not from the inner
// query's until).
func c07CheckNested(c *fw.Ctx, env *t6Env, cs c07Case) {
	if cs.AsOf == "" {
		return
	}
	now := int64(cs.NowHalf) * sec / 2
	inner := c07NestedInner[cs.Grouping-c07NestedFirst]
	inA, inALit := c07Instant(fmt.Sprintf("abs:%d", inner[0]), now)
	inU, inULit := c07Instant(fmt.Sprintf("abs:%d", inner[1]), now)
	reqA, lit := c07Instant(cs.AsOf, now)
	clause := fmt.Sprintf(" ASOF '%s'", lit)
	reqU := int64(math.MaxInt64)
	if cs.Until != "" {
		reqU, lit = c07Instant(cs.Until, now)
		clause += fmt.Sprintf(" UNTIL '%s'", lit)
	}
	c.Eval(1)
	nested := fmt.Sprintf("SELECT a, ca FROM (SELECT a, ca FROM t6 ASOF '%s' UNTIL '%s')%s", inALit, inULit, clause)
	effA, effU := inA, inU
	if reqA > effA {
		effA = reqA
	}
	if reqU < effU {
		effU = reqU
	}
	ctx := fmt.Sprintf("%s (dataset %v split %d now=%v)", nested, cs.Dataset, cs.Split, time.Duration(now))
	got, gerr := env.db.Query(nested, true)
	if effA >= effU || reqA >= reqU {
		if gerr == nil && len(got.Rows) > 0 {
			c.Violate("C07", "rows-for-empty-range", fmt.Sprintf("%s: the ranges do not intersect but %d rows returned: %v", ctx, len(got.Rows), got.Canon()), cs)
		}
		return
	}
	abs := func(v int64) string { return dbdrv.Epoch.Add(time.Duration(v)).Format(time.RFC3339Nano) }
	direct := fmt.Sprintf("SELECT a, ca FROM t6 ASOF '%s' UNTIL '%s'", abs(effA), abs(effU))
	want, werr := env.db.Query(direct, true)
	if werr != nil {
		c.Count("nested_direct_form_refused", 1)
		return
	}
	if gerr != nil {
		if reqA < inA || reqU > inU {
			// the outer range reaches outside the subquery's own window: refusing it is the table-window rule
			c.Count("nested_refused_outer_range_outside_inner_window", 1)
			return
		}
		c.Violate("C07", "query-error", fmt.Sprintf("%s: %v (the direct form %s works)", ctx, gerr, direct), cs)
		return
	}
	if fmt.Sprint(got.Canon()) != fmt.Sprint(want.Canon()) {
		c.Violate("C07", "nested-range-differs-from-intersection", fmt.Sprintf("%s returns\n%v\nbut %s returns\n%v", ctx, got.Canon(), direct, want.Canon()), cs)
		return
	}
	if len(want.Rows) > 0 && len(want.Rows) < len(env.pts) {
		c.Nontrivial(fmt.Sprintf("%v|%d|%d|%s", cs.Dataset, cs.Split, cs.NowHalf, nested))
	}
	c.Outcome(fmt.Sprintf("nested %d rows", len(got.Rows)))
}

func c07Check(c *fw.Ctx, env *t6Env, cs c07Case) {
	if cs.Grouping >= c07NestedFirst {
		c07CheckNested(c, env, cs)
		return
	}
	now := int64(cs.NowHalf) * sec / 2
	clause := ""
	reqA, reqU := int64(math.MinInt64), int64(math.MaxInt64)
	if cs.AsOf != "" {
		var lit string
		reqA, lit = c07Instant(cs.AsOf, now)
		clause = fmt.Sprintf(" ASOF '%s'", lit)
		if cs.Until != "" {
			reqU, lit = c07Instant(cs.Until, now)
			clause += fmt.Sprintf(" UNTIL '%s'", lit)
		}
	}
	sql := fmt.Sprintf(c07Groupings[cs.Grouping], clause)
	res, err := env.db.Query(sql, true)
	c.Eval(1)
	tAsOf, tUntil := tableWindow(now, env.t.Resolution, env.t.Retention)
	rs := int64(env.t.Resolution)
	ctx := func() string {
		return fmt.Sprintf("%s (dataset %v split %d now=%v)", sql, cs.Dataset, cs.Split, time.Duration(now))
	}
	if err != nil {
		c.Outcome("error")
		switch {
		case cs.AsOf != "" && reqA < tAsOf && strings.Contains(err.Error(), "before table asOf"):
			c.Count("refused_asof_before_table_window", 1)
		case reqA >= reqU:
			c.Count("refused_empty_range", 1)
		case reqU-reqA < rs || reqU <= tAsOf || roundUpTo(reqA, rs) >= roundUpTo(reqU, rs):
			// a range that contains no whole period may be refused
			c.Count("refused_sub_period_range", 1)
		default:
			c.Violate("C07", "query-error", fmt.Sprintf("%s: %v", ctx(), err), cs)
		}
		return
	}
	if reqA >= reqU {
		if len(res.Rows) > 0 {
			c.Violate("C07", "rows-for-empty-range", fmt.Sprintf("%s: asOf >= until but %d rows returned: %v", ctx(), len(res.Rows), res.Canon()), cs)
		}
		return
	}
	q := qSpec{GroupBy: c07GroupBys[cs.Grouping], NativeRs: rs, ReqA: reqA, ReqU: reqU, OldestT: math.MinInt64}
	q.Lo, q.Hi = tAsOf, tUntil
	if reqA > q.Lo {
		q.Lo = reqA
	}
	if reqU < q.Hi {
		q.Hi = reqU
	}
	if cs.AsOf == "" {
		// default window: the plan must bracket (now - retention, now] to within one resolution
		pa, pu := int64(res.AsOf.Sub(dbdrv.Epoch)), int64(res.Until.Sub(dbdrv.Epoch))
		lo := now - int64(env.t.Retention)
		if pa < lo-rs || pa > lo+rs || pu < now-rs || pu > now+rs {
			c.Violate("C07", "default-window-wrong", fmt.Sprintf("%s: plan window (%v, %v], expected about (%v, %v]", ctx(), time.Duration(pa), time.Duration(pu), time.Duration(lo), time.Duration(now)), cs)
			return
		}
		if cs.Grouping != 0 {
			q.OldestT = lo - rs
		}
	}
	if class, msg := checkSemantics(res, env.pts, q); class != "" {
		c.Violate("C07", class, fmt.Sprintf("%s; plan window (%v, %v] resolution %v:\n%s\nrows: %v", ctx(), res.AsOf.Sub(dbdrv.Epoch), res.Until.Sub(dbdrv.Epoch), res.Resolution, msg, res.Canon()), cs)
		return
	}
	// non-trivial: the range cuts the data properly (some but not all rows of the unbounded result)
	in, out := 0, 0
	for _, p := range env.pts {
		if p.E > reqA && p.E <= reqU {
			in++
		} else {
			out++
		}
	}
	if in > 0 && out > 0 {
		c.Nontrivial(fmt.Sprintf("%v|%d|%d|%s", cs.Dataset, cs.Split, cs.NowHalf, sql))
	}
	c.Outcome(fmt.Sprintf("%d rows", len(res.Rows)))
}

func roundUpTo(v, r int64) int64 {
	if v%r == 0 {
		return v
	}
	if v > 0 {
		return (v/r + 1) * r
	}
	return v / r * r
}

func c07RunDataset(c *fw.Ctx, set []t6Cell, split int, only *c07Case) {
	dir := newDir(c)
	defer removeDir(dir)
	env := t6Open(c, dir, set, split)
	if env == nil {
		return
	}
	defer env.db.Close()
	grid := c07Grid()
	for _, nh := range []int{10, 11} {
		if only != nil && nh > only.NowHalf {
			break
		}
		env.db.SetClock(dbdrv.Epoch.Add(time.Duration(nh) * time.Second / 2))
		if only != nil {
			if nh == only.NowHalf {
				c07Check(c, env, *only)
			}
			continue
		}
		for gi := 0; gi < c07NestedFirst+len(c07NestedInner); gi++ {
			if gi == 4 && split != 3 {
				continue
			}
			if gi >= c07NestedFirst {
				for _, a := range grid {
					for _, u := range append([]string{""}, grid...) {
						c07Check(c, env, c07Case{Dataset: set, Split: split, NowHalf: nh, AsOf: a, Until: u, Grouping: gi})
					}
				}
				continue
			}
			c07Check(c, env, c07Case{Dataset: set, Split: split, NowHalf: nh, Grouping: gi})
			for _, a := range grid {
				for _, u := range append([]string{""}, grid...) {
					cs := c07Case{Dataset: set, Split: split, NowHalf: nh, AsOf: a, Until: u, Grouping: gi}
					if a == "abs:3" && u == "rel:-1s" {
						c.Sample(fmt.Sprintf("grouping%d", gi), cs)
					}
					c07Check(c, env, cs)
				}
			}
		}
	}
}

func init() {
	fw.Register(&fw.Prop{
		ID:          "C07",
		Level:       "exploration",
		Rule:        "datasets (4 rich sets + all single cells (quick) / + all pairs (thorough)) × storage {memory, disk, split, altered (a field added in front of the others half-way: the columns of one row cover different periods)} × clock {period end, mid-period} × (asOf, until) over {absent} ∪ {every boundary and mid-period instant from 1 s before the data to 2 s after, as RFC3339} ∪ {relative -1s, -2500ms, -5s} (asOf >= until pairs included) × grouping {native, GROUP BY x, period(2s), _ with period(3s), and for the altered table the added field named first}, plus the same (asOf, until) grid applied to FROM-subqueries with absolute ranges of their own, which must select what the direct query with the intersected range selects; oracle: interval oracle of C06 with the must-window (asOf, until] ∩ table window (every native period wholly inside is covered exactly once with values recomputed from raw points), no row ending at or before asOf or beginning at or after until, straddling periods unconstrained, empty ranges give an error or no rows, refusals only for asOf before the table window or sub-period ranges, default window brackets (now - retention, now] within one resolution; non-trivial = range that keeps some but not all points",
		Assumptions: []string{"relative offsets are relative to the database (virtual) clock"},
		Shards:      func(tier string) int { return 16 },
		Budget: func(tier string) time.Duration {
			if tier == "thorough" {
				return 45 * time.Minute
			}
			return 4 * time.Minute
		},
		Run: func(c *fw.Ctx) {
			maxN := 1
			if c.Thorough() {
				maxN = 2
			}
			var idx int64
			for _, set := range t6Datasets(maxN) {
				for split := 0; split < 4; split++ {
					idx++
					if !c.Mine(idx) {
						continue
					}
					if c.Expired() {
						c.Incomplete("time budget used up")
						return
					}
					c07RunDataset(c, set, split, nil)
				}
			}
			c.R.Bound = fmt.Sprintf("datasets of up to %d cells plus 4 rich sets", maxN)
		},
		Replay: func(c *fw.Ctx, raw json.RawMessage) {
			var cs c07Case
			if json.Unmarshal(raw, &cs) != nil {
				return
			}
			c07RunDataset(c, cs.Dataset, cs.Split, &cs)
		},
	})
}
