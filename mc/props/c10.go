package props

import (
	"encoding/json"
	"fmt"
	"sort"
	"strings"
	"time"

	"verif/mc/cluster"
	"verif/mc/dbdrv"
	"verif/mc/fw"
	rm "verif/mc/refmodel"
)

// C10 — a partitioned cluster answers every query like a standalone database.
// Differential over config × dataset × query: every element runs on a real
// in-process cluster and on a standalone DB fed the same points.

type c10Case struct {
	P        int     `json:"partitions"`
	Leaders  int     `json:"leaders"`
	Red      int     `json:"redundancy"`
	Dataset  []c10Pt `json:"dataset"`
	FlushAll bool    `json:"flush"`
	Query    string  `json:"query,omitempty"` // replay: only this query
}

type c10Pt struct {
	X int    `json:"x"` // 0 absent
	Y string `json:"y"` // "" absent
	R string `json:"r"`
	P int    `json:"p"`
}

var c10TableNames = []string{"tn", "tx", "ty", "txy", "tw"}

func c10Tables() []dbdrv.TableDef {
	mk := func(name string, by []string, where string) dbdrv.TableDef {
		sql := "SELECT SUM(a) AS a, COUNT(a) AS ca, AVG(a) AS av, MAX(a) AS mx FROM s"
		if where != "" {
			sql += " WHERE " + where
		}
		sql += " GROUP BY x, y, period(1s)"
		return dbdrv.TableDef{Name: name, Stream: "s", SQL: sql, Retention: 100 * time.Second, PartitionBy: by}
	}
	return []dbdrv.TableDef{
		mk("tn", nil, ""),
		mk("tx", []string{"x"}, ""),
		mk("ty", []string{"y"}, ""),
		// declared out of alphabetical order: leader (routing) and follower (filtering) must still hash the key values
		// in the same order
		mk("txy", []string{"y", "x"}, ""),
		mk("tw", []string{"x"}, "r = 'A'"),
	}
}

func c10Queries(t string) []string {
	qs := []string{
		"SELECT * FROM %s",
		"SELECT a, ca FROM %s GROUP BY x",
		"SELECT a, av FROM %s GROUP BY y",
		"SELECT a, mx FROM %s GROUP BY _",
		"SELECT a / ca AS r, ca FROM %s GROUP BY x, y",
		"SELECT * FROM %s WHERE x = 1",
		"SELECT a FROM %s WHERE y = 'a' GROUP BY x",
		"SELECT a FROM %s GROUP BY x HAVING a > 2",
		"SELECT a, ca FROM %s GROUP BY y HAVING ca > 1",
		"SELECT a FROM %s GROUP BY x, CROSSTAB(y)",
		"SELECT a FROM %s GROUP BY CROSSTABT(y)",
		"SELECT a FROM %s WHERE x IN (SELECT x FROM %s WHERE y = 'a') GROUP BY x",
		"SELECT a FROM (SELECT a FROM %s GROUP BY x, y) GROUP BY x",
		"SELECT AVG(a) AS aa FROM (SELECT a, ca FROM %s GROUP BY x, y) GROUP BY y",
		"SELECT * FROM %s ORDER BY a DESC, _time",
		"SELECT a FROM %s GROUP BY x ORDER BY a LIMIT 2",
		"SELECT a FROM %s GROUP BY x, y ORDER BY a DESC LIMIT 1, 2",
		"SELECT a, ca FROM %s GROUP BY period(2s)",
		"SELECT a FROM %s GROUP BY x, period(2s)",
		"SELECT * FROM %s LIMIT 2",
	}
	out := make([]string, len(qs))
	for i, q := range qs {
		out[i] = strings.ReplaceAll(q, "%s", t)
	}
	return out
}

func c10Point(i int, p c10Pt) dbdrv.Point {
	d := map[string]interface{}{"r": p.R}
	if p.X > 0 {
		d["x"] = p.X
	}
	if p.Y != "" {
		d["y"] = p.Y
	}
	return dbdrv.Point{TS: int64(p.P)*sec - sec/2, Dims: d, Vals: map[string]interface{}{"a": float64(int(1) << uint(i))}}
}

func c10FixedDatasets() [][]c10Pt {
	return [][]c10Pt{
		{{1, "a", "A", 1}, {2, "a", "A", 1}, {3, "b", "B", 1}, {1, "b", "A", 2}, {2, "", "A", 2}, {0, "a", "B", 2}},
		{{1, "a", "A", 1}, {1, "a", "B", 1}, {1, "a", "A", 2}, {1, "b", "A", 1}},
		{{0, "", "A", 1}, {0, "", "B", 2}, {3, "", "A", 1}, {0, "b", "A", 2}},
		{{1, "a", "A", 1}, {2, "b", "A", 1}, {3, "a", "A", 2}, {4, "b", "B", 2}, {5, "a", "A", 1}, {6, "b", "A", 2}, {7, "a", "B", 1}, {8, "b", "A", 2}},
		{{2, "b", "B", 2}},
		{{1, "a", "A", 1}, {2, "a", "A", 1}, {3, "a", "A", 1}, {4, "a", "A", 1}, {1, "b", "A", 1}, {2, "b", "A", 1}, {3, "b", "A", 1}, {4, "b", "A", 1}},
	}
}

func c10AllDatasets(maxN int) [][]c10Pt {
	var cells []c10Pt
	for x := 0; x <= 3; x++ {
		for _, y := range []string{"", "a", "b"} {
			for p := 1; p <= 2; p++ {
				r := "A"
				if (x+p)%3 == 0 {
					r = "B"
				}
				cells = append(cells, c10Pt{x, y, r, p})
			}
		}
	}
	var out [][]c10Pt
	var rec func(start int, cur []c10Pt)
	rec = func(start int, cur []c10Pt) {
		if len(cur) > 0 {
			out = append(out, append([]c10Pt(nil), cur...))
		}
		if len(cur) == maxN {
			return
		}
		for i := start; i < len(cells); i++ {
			rec(i+1, append(cur, cells[i]))
		}
	}
	rec(0, nil)
	return out
}

func hasOrderBy(q string) bool { return strings.Contains(q, "ORDER BY") }
func hasLimit(q string) bool   { return strings.Contains(q, "LIMIT") }

func c10Run(c *fw.Ctx, cs c10Case) {
	base := newDir(c)
	defer removeDir(base)
	tables := c10Tables()
	cl, err := cluster.Start(base+"/cluster", cluster.Config{Tables: tables, NumPartitions: cs.P, Leaders: cs.Leaders, Redundancy: cs.Red})
	if err != nil {
		c.Incomplete("cluster start: " + err.Error())
		return
	}
	defer cl.Close()
	var stTables []dbdrv.TableDef
	for _, t := range tables {
		t.PartitionBy = nil
		stTables = append(stTables, t)
	}
	sdb, err := dbdrv.Open(base+"/standalone", dbdrv.Config{Tables: stTables})
	if err != nil {
		c.Incomplete("standalone open: " + err.Error())
		return
	}
	defer sdb.Close()
	for i, p := range cs.Dataset {
		pt := c10Point(i, p)
		if err := cl.Insert(i%cs.Leaders, "s", pt); err != nil {
			c.Incomplete("cluster insert: " + err.Error())
			return
		}
		if err := sdb.Insert("s", pt); err != nil {
			c.Incomplete("standalone insert: " + err.Error())
			return
		}
		c.Transition(2)
	}
	if !cl.Quiesce() {
		c.Incomplete("cluster quiescence timeout")
		return
	}
	if cs.FlushAll {
		for _, f := range cl.Followers {
			f.Flush("")
		}
		sdb.FlushAll()
	}
	cl.SetClock(sdb.Now)
	fail := func(key, msg string, q string) {
		one := cs
		one.Query = q
		c.Violate("C10", key, fmt.Sprintf("P=%d leaders=%d followers/partition=%d flush=%v dataset %v\n%s", cs.P, cs.Leaders, cs.Red, cs.FlushAll, cs.Dataset, msg), one)
	}
	// every accepted point is applied by exactly one partition of each table; redundant followers agree
	for _, tn := range c10TableNames {
		st, err := sdb.Query("SELECT * FROM "+tn, true)
		if err != nil {
			c.Incomplete("standalone query: " + err.Error())
			return
		}
		type agg struct{ pts, a float64 }
		want := map[string]agg{}
		for _, r := range st.Rows {
			k := fmt.Sprintf("%d|%s", r.TS, rm.KeyString(r.Key))
			want[k] = agg{r.Vals[fieldIdx(st, "_points")], r.Vals[fieldIdx(st, "a")]}
		}
		got := map[string]agg{}
		byPartition := map[int]string{}
		for _, f := range cl.Followers {
			fr, err := f.Query("SELECT * FROM "+tn, true)
			if err != nil {
				fail("follower-query-error", fmt.Sprintf("follower %d.%d table %s: %v", f.Partition, f.ID, tn, err), "")
				return
			}
			canon := fmt.Sprint(fr.Canon())
			if prev, ok := byPartition[f.Partition]; ok {
				if prev != canon {
					fail("redundant-followers-differ", fmt.Sprintf("table %s partition %d: followers hold different rows:\n%s\nvs\n%s", tn, f.Partition, prev, canon), "")
					return
				}
				continue
			}
			byPartition[f.Partition] = canon
			for _, r := range fr.Rows {
				k := fmt.Sprintf("%d|%s", r.TS, rm.KeyString(r.Key))
				g := got[k]
				g.pts += r.Vals[fieldIdx(fr, "_points")]
				g.a += r.Vals[fieldIdx(fr, "a")]
				got[k] = g
			}
		}
		if fmt.Sprint(want) != fmt.Sprint(got) {
			fail("points-not-applied-exactly-once", fmt.Sprintf("table %s: summed over partitions (points, a) per row %v, standalone %v\npartitions: %v", tn, got, want, byPartition), "")
			return
		}
	}
	for _, tn := range c10TableNames {
		for _, q := range c10Queries(tn) {
			if cs.Query != "" && q != cs.Query {
				continue
			}
			for leader := 0; leader < cs.Leaders; leader++ {
				c.Eval(1)
				want, werr := sdb.Query(q, true)
				got, gerr := cl.QueryLeader(leader, q, true)
				if (werr != nil) != (gerr != nil) {
					key := "cluster-error-differs"
					if gerr != nil && strings.Contains(gerr.Error(), "Unable to plan non-pushdown query") {
						key = "D8-non-pushdown-text-surgery"
					}
					fail(key, fmt.Sprintf("%s on leader %d: cluster err=%v, standalone err=%v", q, leader, gerr, werr), q)
					continue
				}
				if werr != nil {
					c.Count("queries_refused_by_both", 1)
					continue
				}
				if got.Stats != nil && (got.Stats.NumSuccessfulPartitions != got.Stats.NumPartitions || got.Stats.NumPartitions != cs.P) {
					fail("partitions-missing", fmt.Sprintf("%s: stats %+v", q, got.Stats), q)
					continue
				}
				if fmt.Sprint(got.Fields) != fmt.Sprint(want.Fields) {
					fail("cluster-fields-differ", fmt.Sprintf("%s: cluster fields %v, standalone %v", q, got.Fields, want.Fields), q)
					continue
				}
				if hasLimit(q) && !hasOrderBy(q) {
					// any n rows of the result
					full, ferr := sdb.Query(q[:strings.Index(q, " LIMIT")], true)
					if ferr != nil {
						continue
					}
					fm := multiset(full)
					ok := len(got.Rows) == len(want.Rows)
					for _, s := range got.Canon() {
						fm[s]--
						if fm[s] < 0 {
							ok = false
						}
					}
					if !ok {
						fail("cluster-limit-differs", fmt.Sprintf("%s: cluster %v, standalone full %v", q, got.Canon(), full.Canon()), q)
					}
					continue
				}
				if hasOrderBy(q) {
					// order is decided by the sort keys; ties may be broken either way
					keys := c10OrderKeys(q)
					var gk, wk []string
					for i := range got.Rows {
						gk = append(gk, keyTuple(got, &got.Rows[i], keys))
					}
					for i := range want.Rows {
						wk = append(wk, keyTuple(want, &want.Rows[i], keys))
					}
					if fmt.Sprint(gk) != fmt.Sprint(wk) {
						key := "cluster-order-differs"
						if off, lim, ok := c10OffsetLimit(q); ok && off > 0 && strings.Contains(got.Plan, "cluster flat") {
							// known finding D13: a pushed-down query applies its OFFSET on every
							// partition and again on the leader. Predict exactly that from the
							// followers' own answers; anything else stays a violation.
							var all []dbdrv.Row
							var fields []string
							seenP := map[int]bool{}
							for _, f := range cl.Followers {
								if seenP[f.Partition] {
									continue
								}
								seenP[f.Partition] = true
								if fr, ferr := f.Query(q, true); ferr == nil {
									all = append(all, fr.Rows...)
									fields = fr.Fields
								}
							}
							pred := &dbdrv.Result{Fields: fields, Rows: all}
							sort.SliceStable(pred.Rows, func(i, j int) bool {
								for _, k := range keys {
									if r := c09Cmp(pred, &pred.Rows[i], &pred.Rows[j], k, true); r != 0 {
										return r < 0
									}
								}
								return false
							})
							var pk []string
							for i := off; i < len(pred.Rows) && i < off+lim; i++ {
								pk = append(pk, keyTuple(pred, &pred.Rows[i], keys))
							}
							if fmt.Sprint(pk) == fmt.Sprint(gk) {
								key = "D13-pushdown-offset-applied-twice"
							}
						}
						fail(key, fmt.Sprintf("%s: cluster sort keys %v, standalone %v", q, gk, wk), q)
						continue
					}
					if !hasLimit(q) && fmt.Sprint(got.Canon()) != fmt.Sprint(want.Canon()) {
						fail("cluster-rows-differ", fmt.Sprintf("%s:\ncluster    %v\nstandalone %v", q, got.Canon(), want.Canon()), q)
					}
					continue
				}
				if fmt.Sprint(got.Canon()) != fmt.Sprint(want.Canon()) {
					fail("cluster-rows-differ", fmt.Sprintf("%s on leader %d:\ncluster    %v\nstandalone %v\nplan: %s", q, leader, got.Canon(), want.Canon(), got.Plan), q)
					continue
				}
				if len(want.Rows) > 0 {
					c.Nontrivial(fmt.Sprintf("%v|%s", cs, q))
				}
				c.Outcome(fmt.Sprintf("%s|%d", q, len(got.Rows)))
			}
		}
	}
	for _, l := range cl.Leaders {
		if len(l.Panics) > 0 {
			fail("panic", fmt.Sprint(l.Panics), "")
		}
	}
}

func c10OffsetLimit(q string) (off, lim int, ok bool) {
	i := strings.Index(q, " LIMIT ")
	if i < 0 {
		return 0, 0, false
	}
	rest := strings.TrimSpace(q[i+7:])
	if n, _ := fmt.Sscanf(rest, "%d, %d", &off, &lim); n == 2 {
		return off, lim, true
	}
	if n, _ := fmt.Sscanf(rest, "%d", &lim); n == 1 {
		return 0, lim, true
	}
	return 0, 0, false
}

func c10OrderKeys(q string) []c09Key {
	s := q[strings.Index(q, "ORDER BY")+9:]
	if i := strings.Index(s, " LIMIT"); i >= 0 {
		s = s[:i]
	}
	var keys []c09Key
	for _, part := range strings.Split(s, ",") {
		f := strings.Fields(strings.TrimSpace(part))
		k := c09Key{Field: f[0]}
		if len(f) > 1 && strings.EqualFold(f[1], "DESC") {
			k.Desc = true
		}
		keys = append(keys, k)
	}
	return keys
}

func init() {
	fw.Register(&fw.Prop{
		ID:          "C10",
		Level:       "exploration",
		Rule:        "configs P in {1,2,3} (quick) / 1..5 (thorough) × leaders {1,2} × followers per partition {1,2}; every cluster carries 5 tables on one stream with partitionBy in {none (all dims), [x], [y], [x,y], [x] with WHERE}; datasets: 6 fixed sets (absent partition-key dims, colliding keys, many keys) (quick) + all sets of up to 2 cells over x in {absent,1,2,3} × y in {absent,a,b} × 2 periods (thorough), inserted round-robin over the leaders, queried from memory and after flushing; 20 queries per table (native, GROUP BY each dim subset and none, derived fields, WHERE, HAVING, CROSSTAB(T), IN-subquery, FROM-subqueries, ORDER BY, LIMIT/OFFSET, coarse period) on every leader; oracle: rows equal a standalone DB fed the same points (multiset; sort-key sequence under ORDER BY; sub-multiset of the right size for bare LIMIT), per-table sums over partitions of (_points, a) per row equal standalone (each point applied by exactly one partition), redundant followers identical, no missing partitions; non-trivial = query with rows",
		Assumptions: []string{"all virtual clocks are advanced to the same instant (synchronised wall clocks)", "exact quiescence from leader routing position, link accounting and follower hand-off counters"},
		Shards:      func(tier string) int { return 12 },
		Budget: func(tier string) time.Duration {
			if tier == "thorough" {
				return 45 * time.Minute
			}
			return 5 * time.Minute
		},
		Run: func(c *fw.Ctx) {
			ps := []int{1, 2, 3}
			datasets := c10FixedDatasets()
			if c.Thorough() {
				ps = []int{1, 2, 3, 4, 5}
				datasets = append(datasets, c10AllDatasets(2)...)
			}
			var idx int64
			for _, p := range ps {
				for leaders := 1; leaders <= 2; leaders++ {
					for red := 1; red <= 2; red++ {
						for di, ds := range datasets {
							for _, flush := range []bool{false, true} {
								if flush && di >= len(c10FixedDatasets()) {
									continue
								}
								idx++
								if !c.Mine(idx) {
									continue
								}
								if c.Expired() {
									c.Incomplete("time budget used up")
									return
								}
								cs := c10Case{P: p, Leaders: leaders, Red: red, Dataset: ds, FlushAll: flush}
								c.Trace(1)
								c.Sample(fmt.Sprintf("P%d", p), map[string]interface{}{"config": cs, "queries": c10Queries("tx")[:5]})
								c10Run(c, cs)
							}
						}
					}
				}
			}
			c.R.Bound = fmt.Sprintf("P in %v, %d datasets", ps, len(datasets))
		},
		Replay: func(c *fw.Ctx, raw json.RawMessage) {
			var cs c10Case
			if json.Unmarshal(raw, &cs) != nil {
				return
			}
			c10Run(c, cs)
		},
	})
	_ = sort.Strings
}
