package props

import (
	"encoding/json"
	"fmt"
	"math"
	"sort"
	"strings"
	"time"

	"verif/mc/dbdrv"
	"verif/mc/fw"
	rm "verif/mc/refmodel"
)

// C08 — WHERE, HAVING, IN-subquery and FROM-subquery keep exactly the
// matching rows. The predicate evaluator below is written for the harness and
// does not use goexpr; it is three-valued: a comparison against an absent
// dimension is "unknown" and the point is then unconstrained.

type tri int

const (
	triFalse tri = iota
	triTrue
	triUnknown
)

func triNot(a tri) tri {
	switch a {
	case triTrue:
		return triFalse
	case triFalse:
		return triTrue
	}
	return triUnknown
}
func triAnd(a, b tri) tri {
	if a == triFalse || b == triFalse {
		return triFalse
	}
	if a == triTrue && b == triTrue {
		return triTrue
	}
	return triUnknown
}
func triOr(a, b tri) tri {
	if a == triTrue || b == triTrue {
		return triTrue
	}
	if a == triFalse && b == triFalse {
		return triFalse
	}
	return triUnknown
}
func triOf(b bool) tri {
	if b {
		return triTrue
	}
	return triFalse
}

type c08Atom struct {
	SQL string
	Fn  func(d map[string]interface{}) tri
}

func c08Atoms() []c08Atom {
	intDim := func(name string, f func(v int) bool) func(d map[string]interface{}) tri {
		return func(d map[string]interface{}) tri {
			v, ok := d[name].(int)
			if !ok {
				return triUnknown
			}
			return triOf(f(v))
		}
	}
	strDim := func(name string, f func(v string) bool) func(d map[string]interface{}) tri {
		return func(d map[string]interface{}) tri {
			v, ok := d[name].(string)
			if !ok {
				return triUnknown
			}
			return triOf(f(v))
		}
	}
	return []c08Atom{
		{"x = 1", intDim("x", func(v int) bool { return v == 1 })},
		{"x <> 1", intDim("x", func(v int) bool { return v != 1 })},
		{"x < 2", intDim("x", func(v int) bool { return v < 2 })},
		{"x > 1", intDim("x", func(v int) bool { return v > 1 })},
		{"x IN (1, 3)", intDim("x", func(v int) bool { return v == 1 || v == 3 })},
		{"z LIKE 'a%'", strDim("z", func(v string) bool { return strings.HasPrefix(v, "a") })},
		{"z IS NULL", func(d map[string]interface{}) tri { _, ok := d["z"]; return triOf(!ok) }},
		{"z IS NOT NULL", func(d map[string]interface{}) tri { _, ok := d["z"]; return triOf(ok) }},
		{"y = true", func(d map[string]interface{}) tri {
			v, ok := d["y"].(bool)
			if !ok {
				return triUnknown
			}
			return triOf(v)
		}},
		{"LEN(z) = 1", strDim("z", func(v string) bool { return len(v) == 1 })},
	}
}

type c08Pred struct {
	SQL string
	Fn  func(d map[string]interface{}) tri
}

func c08Preds() []c08Pred {
	var units []c08Pred
	for _, a := range c08Atoms() {
		a := a
		units = append(units, c08Pred{a.SQL, a.Fn})
		units = append(units, c08Pred{"NOT (" + a.SQL + ")", func(d map[string]interface{}) tri { return triNot(a.Fn(d)) }})
	}
	out := append([]c08Pred{}, units...)
	for _, u1 := range units {
		for _, u2 := range units {
			u1, u2 := u1, u2
			out = append(out, c08Pred{"(" + u1.SQL + ") AND (" + u2.SQL + ")", func(d map[string]interface{}) tri { return triAnd(u1.Fn(d), u2.Fn(d)) }})
			out = append(out, c08Pred{"(" + u1.SQL + ") OR (" + u2.SQL + ")", func(d map[string]interface{}) tri { return triOr(u1.Fn(d), u2.Fn(d)) }})
		}
	}
	return out
}

func t8Table() *rm.Table {
	return &rm.Table{Name: "t8", Stream: "s", GroupBy: []string{"x", "y", "z"}, Resolution: time.Second, Retention: 100 * time.Second,
		Fields: []rm.Field{
			{Name: "a", Expr: rm.Agg{Kind: "SUM", Val: "a"}},
			{Name: "ca", Expr: rm.Agg{Kind: "COUNT", Val: "a"}},
			{Name: "av", Expr: rm.Agg{Kind: "AVG", Val: "a"}},
			{Name: "mx", Expr: rm.Agg{Kind: "MAX", Val: "a"}},
			{Name: "b", Expr: rm.Agg{Kind: "SUM", Val: "b"}},
			{Name: "nv", Expr: rm.Agg{Kind: "SUM", Val: "nv"}},
		}}
}

type t8Spec struct {
	X  int // 0 = absent
	Y  int // 0 absent, 1 true, 2 false
	Z  string
	P  int
	HB bool
}

func c08Datasets() [][]t8Spec {
	return [][]t8Spec{
		{{1, 1, "a", 1, true}, {2, 2, "ab", 1, false}, {3, 1, "b", 2, true}, {1, 2, "", 2, false}, {0, 1, "a", 3, false}, {2, 0, "b", 3, true}, {1, 1, "ab", 4, false}, {3, 2, "a", 4, true}},
		{{1, 1, "a", 1, true}, {1, 1, "a", 1, false}, {1, 1, "a", 2, true}, {2, 1, "a", 2, false}},
		{{0, 0, "", 1, true}, {0, 0, "", 2, false}, {1, 0, "", 2, true}, {0, 2, "b", 3, false}},
		{{2, 2, "b", 1, false}, {3, 2, "ba", 2, true}, {2, 1, "ab", 3, true}, {3, 1, "a", 4, false}, {1, 2, "b", 4, true}, {1, 1, "", 1, false}},
		{{1, 1, "a", 2, true}},
		{{1, 1, "a", 1, true}, {2, 2, "b", 1, true}, {3, 1, "ab", 1, true}, {1, 2, "a", 2, true}, {2, 1, "b", 2, true}, {3, 2, "", 2, true}, {0, 1, "a", 3, true}, {1, 0, "b", 3, true}, {2, 2, "a", 3, false}, {3, 1, "b", 4, false}},
	}
}

type t8Env struct {
	db  *dbdrv.DB
	pts []qPoint
	t   *rm.Table
}

func t8Open(c *fw.Ctx, ds int) *t8Env {
	t := t8Table()
	db, err := dbdrv.Open(newDir(c), dbdrv.Config{Tables: []dbdrv.TableDef{defOf(t)}})
	if err != nil {
		c.Incomplete("open: " + err.Error())
		return nil
	}
	env := &t8Env{db: db, t: t}
	val := 1.0
	specs := c08Datasets()[ds]
	for i, sp := range specs {
		d := map[string]interface{}{}
		if sp.X > 0 {
			d["x"] = sp.X
		}
		if sp.Y == 1 {
			d["y"] = true
		} else if sp.Y == 2 {
			d["y"] = false
		}
		if sp.Z != "" {
			d["z"] = sp.Z
		}
		vals := D("a", val)
		qp := qPoint{Dims: d, E: int64(sp.P) * sec, A: val}
		if sp.HB {
			vals["b"] = 0.5
			qp.B, qp.HasB = 0.5, true
		}
		if err := db.Insert("s", dbdrv.Point{TS: int64(sp.P)*sec - sec/2, Dims: d, Vals: vals}); err != nil {
			c.Incomplete("insert: " + err.Error())
			db.Close()
			return nil
		}
		env.pts = append(env.pts, qp)
		val *= 2
		if i == len(specs)/2 {
			db.FlushAll()
		}
	}
	db.SetClock(dbdrv.Epoch.Add(5 * time.Second))
	return env
}

type c08Case struct {
	Kind    string `json:"kind"` // where | having | in | from
	Dataset int    `json:"dataset"`
	Index   int    `json:"index"`
	Shape   int    `json:"shape"`
	SQL     string `json:"sql,omitempty"`
}

var c08Shapes = []string{"SELECT * FROM t8 WHERE %s", "SELECT a, ca, av FROM t8 WHERE %s GROUP BY x", "SELECT a, ca, mx FROM t8 WHERE %s GROUP BY y, period(2s)"}
var c08ShapeGB = [][]string{nil, {"x"}, {"y"}}

func c08CheckWhere(c *fw.Ctx, env *t8Env, cs c08Case) {
	p := c08Preds()[cs.Index]
	sql := fmt.Sprintf(c08Shapes[cs.Shape], p.SQL)
	res, err := env.db.Query(sql, true)
	c.Eval(1)
	if err != nil {
		c.Violate("C08", "query-error", fmt.Sprintf("%s: %v", sql, err), cs)
		return
	}
	pts := make([]qPoint, len(env.pts))
	nT, nF := 0, 0
	for i, qp := range env.pts {
		pts[i] = qp
		switch p.Fn(qp.Dims) {
		case triTrue:
			pts[i].Status = 0
			nT++
		case triFalse:
			pts[i].Status = 2
			nF++
		default:
			pts[i].Status = 1
		}
	}
	q := qSpec{GroupBy: c08ShapeGB[cs.Shape], NativeRs: int64(env.t.Resolution), Lo: -95 * sec, Hi: 5 * sec, ReqA: math.MinInt64, ReqU: math.MaxInt64, OldestT: math.MinInt64}
	if class, msg := checkSemantics(res, pts, q); class != "" {
		c.Violate("C08", "where-"+class, fmt.Sprintf("%s (dataset %d):\n%s\nrows: %v", sql, cs.Dataset, msg, res.Canon()), cs)
		return
	}
	if nT > 0 && nF > 0 {
		c.Nontrivial(fmt.Sprintf("w|%d|%s", cs.Dataset, sql))
	}
	c.Outcome(fmt.Sprintf("where %d rows", len(res.Rows)))
}

// --- HAVING ---------------------------------------------------------------

type c08Having struct {
	SQL      string   // HAVING predicate
	Operands []string // fields it reads
	Fn       func(v map[string]float64) bool
	// SetAlways: every operand is set in every row of the HAVING-free query
	// (otherwise rows in which an operand is unset are unconstrained)
	MaybeUnset bool
}

func c08Havings() []c08Having {
	hs := []c08Having{
		{SQL: "a > 3", Operands: []string{"a"}, Fn: func(v map[string]float64) bool { return v["a"] > 3 }},
		{SQL: "a >= 4", Operands: []string{"a"}, Fn: func(v map[string]float64) bool { return v["a"] >= 4 }},
		{SQL: "a < 9", Operands: []string{"a"}, Fn: func(v map[string]float64) bool { return v["a"] < 9 }},
		{SQL: "a <= 8", Operands: []string{"a"}, Fn: func(v map[string]float64) bool { return v["a"] <= 8 }},
		{SQL: "a = 4", Operands: []string{"a"}, Fn: func(v map[string]float64) bool { return v["a"] == 4 }},
		{SQL: "a <> 4", Operands: []string{"a"}, Fn: func(v map[string]float64) bool { return v["a"] != 4 }},
		{SQL: "ca > 1", Operands: []string{"ca"}, Fn: func(v map[string]float64) bool { return v["ca"] > 1 }},
		{SQL: "av > 2 AND ca < 3", Operands: []string{"av", "ca"}, Fn: func(v map[string]float64) bool { return v["av"] > 2 && v["ca"] < 3 }},
		{SQL: "av < 2 OR mx > 16", Operands: []string{"av", "mx"}, Fn: func(v map[string]float64) bool { return v["av"] < 2 || v["mx"] > 16 }},
		{SQL: "a + ca > 5", Operands: []string{"a", "ca"}, Fn: func(v map[string]float64) bool { return v["a"]+v["ca"] > 5 }},
		{SQL: "a - mx > 0", Operands: []string{"a", "mx"}, Fn: func(v map[string]float64) bool { return v["a"]-v["mx"] > 0 }},
		{SQL: "a * 2 > 16", Operands: []string{"a"}, Fn: func(v map[string]float64) bool { return v["a"]*2 > 16 }},
		{SQL: "a / ca >= 4", Operands: []string{"a", "ca"}, Fn: func(v map[string]float64) bool { return v["a"]/v["ca"] >= 4 }},
		{SQL: "mx - av > 0", Operands: []string{"mx", "av"}, Fn: func(v map[string]float64) bool { return v["mx"]-v["av"] > 0 }},
		{SQL: "_points > 1", Operands: []string{"_points"}, Fn: func(v map[string]float64) bool { return v["_points"] > 1 }},
		{SQL: "b > 0", Operands: []string{"b"}, Fn: func(v map[string]float64) bool { return v["b"] > 0 }, MaybeUnset: true},
		{SQL: "a + b > 4", Operands: []string{"a", "b"}, Fn: func(v map[string]float64) bool { return v["a"]+v["b"] > 4 }},
		{SQL: "nv > 0", Operands: []string{"nv"}, Fn: func(v map[string]float64) bool { return v["nv"] > 0 }, MaybeUnset: true},
		{SQL: "nv < 5", Operands: []string{"nv"}, Fn: func(v map[string]float64) bool { return v["nv"] < 5 }, MaybeUnset: true},
		{SQL: "b < 1", Operands: []string{"b"}, Fn: func(v map[string]float64) bool { return v["b"] < 1 }, MaybeUnset: true},
	}
	return hs
}

// select lists the HAVING queries use: with the operand selected, and without
var c08HavingSelects = []string{"*", "a", "a, ca", "av, mx"}
var c08HavingTails = []string{"", " GROUP BY x", " GROUP BY y, period(2s)"}

func c08CheckHaving(c *fw.Ctx, env *t8Env, cs c08Case) {
	hs := c08Havings()
	h := hs[cs.Index%len(hs)]
	sel := c08HavingSelects[(cs.Index/len(hs))%len(c08HavingSelects)]
	tail := c08HavingTails[cs.Shape]
	sql := fmt.Sprintf("SELECT %s FROM t8%s HAVING %s", sel, tail, h.SQL)
	res, err := env.db.Query(sql, true)
	c.Eval(1)
	if err != nil {
		c.Violate("C08", "query-error", fmt.Sprintf("%s: %v", sql, err), cs)
		return
	}
	// reference: the HAVING-free query with the operands added to the SELECT list
	refSel := sel
	if sel != "*" {
		have := map[string]bool{}
		for _, f := range strings.Split(sel, ", ") {
			have[f] = true
		}
		for _, o := range h.Operands {
			if !have[o] {
				refSel += ", " + o
			}
		}
	} else {
		// _points is part of *
	}
	refSQL := fmt.Sprintf("SELECT %s FROM t8%s", refSel, tail)
	ref, err := env.db.Query(refSQL, true)
	if err != nil {
		c.Violate("C08", "query-error", fmt.Sprintf("%s: %v", refSQL, err), cs)
		return
	}
	plain, err := env.db.Query(fmt.Sprintf("SELECT %s FROM t8%s", sel, tail), true)
	if err != nil {
		c.Violate("C08", "query-error", err.Error(), cs)
		return
	}
	for _, f := range res.Fields {
		if f == "_having" {
			c.Violate("C08", "having-column-exposed", fmt.Sprintf("%s: result fields %v", sql, res.Fields), cs)
			return
		}
	}
	if fmt.Sprint(res.Fields) != fmt.Sprint(plain.Fields) {
		c.Violate("C08", "having-changes-fields", fmt.Sprintf("%s: fields %v, without HAVING %v", sql, res.Fields, plain.Fields), cs)
		return
	}
	for _, r := range res.Rows {
		if len(r.Vals) != len(res.Fields) {
			c.Violate("C08", "having-row-width", fmt.Sprintf("%s: row has %d values for %d fields", sql, len(r.Vals), len(res.Fields)), cs)
			return
		}
	}
	rowKey := func(r *dbdrv.Row) string { return fmt.Sprintf("%d|%s", r.TS, dbdrv.KeyString(r.Key)) }
	got := map[string][]float64{}
	for i := range res.Rows {
		got[rowKey(&res.Rows[i])] = res.Rows[i].Vals
	}
	plainRows := map[string][]float64{}
	for i := range plain.Rows {
		plainRows[rowKey(&plain.Rows[i])] = plain.Rows[i].Vals
	}
	kept, dropped := 0, 0
	for i := range ref.Rows {
		r := &ref.Rows[i]
		vals := map[string]float64{}
		for fi, f := range ref.Fields {
			vals[f] = r.Vals[fi]
		}
		k := rowKey(r)
		want := h.Fn(vals)
		gv, ok := got[k]
		// which operands are unset in this row? (b only for some points, nv never)
		unsetOperand := false
		for _, o := range h.Operands {
			if o == "nv" {
				unsetOperand = true
			}
			if o == "b" && !rowHasB(env, r, c08TailGB(cs.Shape), int64(ref.Resolution)) {
				unsetOperand = true
			}
		}
		if unsetOperand {
			c.Count("having_rows_with_unset_operand", 1)
		} else if want != ok {
			c.Violate("C08", "having-wrong-rows", fmt.Sprintf("%s (dataset %d): row %s with %v: predicate is %v but row present=%v", sql, cs.Dataset, k, vals, want, ok), cs)
			return
		}
		if ok {
			kept++
			// values must be those of the HAVING-free query
			if pv, pok := plainRows[k]; !pok || fmt.Sprint(pv) != fmt.Sprint(gv) {
				c.Violate("C08", "having-changes-values", fmt.Sprintf("%s: row %s = %v, without HAVING %v", sql, k, gv, pv), cs)
				return
			}
		} else {
			dropped++
		}
	}
	for k := range got {
		if _, ok := plainRows[k]; !ok {
			c.Violate("C08", "having-invents-rows", fmt.Sprintf("%s: row %s is not in the HAVING-free result", sql, k), cs)
			return
		}
	}
	if kept > 0 && dropped > 0 {
		c.Nontrivial(fmt.Sprintf("h|%d|%s", cs.Dataset, sql))
	}
	c.Outcome(fmt.Sprintf("having kept %d dropped %d", kept, dropped))
}

func c08TailGB(shape int) []string {
	switch shape {
	case 1:
		return []string{"x"}
	case 2:
		return []string{"y"}
	}
	return nil
}

func rowHasB(env *t8Env, r *dbdrv.Row, gb []string, P int64) bool {
	q := qSpec{GroupBy: gb}
	k := rm.KeyString(r.Key)
	for _, p := range env.pts {
		if q.project(p.Dims) == k && p.E > r.TS-P && p.E <= r.TS && p.HasB {
			return true
		}
	}
	return false
}

// --- IN (SELECT ...) -------------------------------------------------------

var c08InQueries = []struct{ Dim, Sub, Outer string }{
	{"x", "SELECT x FROM t8", "SELECT a, ca FROM t8 WHERE x IN (%s)"},
	{"x", "SELECT x FROM t8 WHERE y = true", "SELECT * FROM t8 WHERE x IN (%s)"},
	{"x", "SELECT x FROM t8 WHERE z = 'a'", "SELECT a FROM t8 WHERE x IN (%s) GROUP BY y"},
	{"x", "SELECT x FROM t8 HAVING a > 4", "SELECT a, av FROM t8 WHERE x IN (%s) GROUP BY x"},
	{"x", "SELECT x FROM t8 WHERE y = false HAVING ca > 0", "SELECT a FROM t8 WHERE x IN (%s) GROUP BY period(2s)"},
	{"z", "SELECT z FROM t8 WHERE x = 1", "SELECT a, ca FROM t8 WHERE z IN (%s)"},
	{"z", "SELECT z FROM t8 HAVING a > 8", "SELECT * FROM t8 WHERE z IN (%s)"},
	{"z", "SELECT z FROM t8 WHERE x > 1 GROUP BY z", "SELECT a FROM t8 WHERE z IN (%s) GROUP BY x"},
	{"x", "SELECT x FROM t8 WHERE x > 5", "SELECT a FROM t8 WHERE x IN (%s)"},
	{"x", "SELECT x FROM t8 GROUP BY x", "SELECT a, mx FROM t8 WHERE y = true AND x IN (%s)"},
	{"z", "SELECT z FROM t8 WHERE y = true GROUP BY z, period(2s)", "SELECT a FROM t8 WHERE z IN (%s) OR x = 3"},
	{"x", "SELECT x FROM t8 WHERE z IS NULL", "SELECT a FROM t8 WHERE NOT (x IN (%s))"},
}

func c08Literal(v interface{}) (string, bool) {
	switch x := v.(type) {
	case int:
		return fmt.Sprint(x), true
	case string:
		return "'" + x + "'", true
	}
	return "", false
}

func c08CheckIn(c *fw.Ctx, env *t8Env, cs c08Case) {
	iq := c08InQueries[cs.Index]
	c.Eval(1)
	// run alone, a subquery's select list is read as value fields; the planner
	// replaces it by _points when it plans the subquery, so that is the
	// stand-alone form (same FROM / WHERE / GROUP BY / HAVING)
	alone := strings.Replace(iq.Sub, "SELECT "+iq.Dim+" FROM", "SELECT _points FROM", 1)
	sub, err := env.db.Query(alone, true)
	if err != nil {
		c.Violate("C08", "query-error", fmt.Sprintf("%s: %v", alone, err), cs)
		return
	}
	distinct := map[string]bool{}
	hasNil := false
	for _, r := range sub.Rows {
		v, ok := r.Key[iq.Dim]
		if !ok {
			hasNil = true
			continue
		}
		if lit, ok := c08Literal(v); ok {
			distinct[lit] = true
		}
	}
	if hasNil {
		// a subquery row without the dimension: membership of "absent" is not defined by the property
		c.Count("in_subqueries_with_absent_value_skipped", 1)
		return
	}
	var lits []string
	for l := range distinct {
		lits = append(lits, l)
	}
	sort.Strings(lits)
	withSub := fmt.Sprintf(iq.Outer, iq.Sub)
	got, err := env.db.Query(withSub, true)
	if err != nil {
		c.Violate("C08", "query-error", fmt.Sprintf("%s: %v", withSub, err), cs)
		return
	}
	var wantRows []string
	if len(lits) == 0 {
		// IN over an empty list matches nothing; the literal form cannot be written, so compare with a never-matching list
		lits = []string{"'\u0001never'"}
		if iq.Dim == "x" {
			lits = []string{"-12345"}
		}
	}
	withList := fmt.Sprintf(iq.Outer, strings.Join(lits, ", "))
	want, err := env.db.Query(withList, true)
	if err != nil {
		c.Violate("C08", "query-error", fmt.Sprintf("%s: %v", withList, err), cs)
		return
	}
	wantRows = want.Canon()
	if fmt.Sprint(got.Fields, got.Canon()) != fmt.Sprint(want.Fields, wantRows) {
		c.Violate("C08", "in-subquery-differs-from-literal-list", fmt.Sprintf("dataset %d:\n%s\n%v %v\n%s\n%v %v", cs.Dataset, withSub, got.Fields, got.Canon(), withList, want.Fields, wantRows), cs)
		return
	}
	if len(got.Rows) > 0 {
		c.Nontrivial(fmt.Sprintf("i|%d|%s", cs.Dataset, withSub))
	}
	c.Outcome(fmt.Sprintf("in %d rows", len(got.Rows)))
}

// --- several IN (SELECT ...) in one WHERE, and nested ones ---------------------

type c08Sub struct{ Dim, Sub string }

func c08Subs() []c08Sub {
	return []c08Sub{
		{"x", "SELECT x FROM t8 WHERE y = true"},
		{"x", "SELECT x FROM t8 WHERE z = 'a'"},
		{"x", "SELECT x FROM t8 HAVING a > 4"},
		{"x", "SELECT x FROM t8 WHERE x > 5"},
		{"x", "SELECT x FROM t8 GROUP BY x"},
		{"z", "SELECT z FROM t8 WHERE x = 1"},
		{"z", "SELECT z FROM t8 HAVING a > 8"},
		{"z", "SELECT z FROM t8 WHERE x > 1 GROUP BY z"},
	}
}

type c08Multi struct {
	Subs  []c08Sub
	Outer string // one %s per sub, in order
	// Nested: Subs[0] sits inside the WHERE of a second subquery "SELECT x FROM t8 WHERE <dim> IN (%s)"
	Nested bool
}

// c08Multis: every ordered pair of subqueries under AND, OR and AND NOT, every triple of distinct subqueries under
// "s1 AND (s2 OR s3)", and every subquery nested inside every other subquery's WHERE.
func c08Multis() []c08Multi {
	subs := c08Subs()
	var out []c08Multi
	in := func(s c08Sub) string { return s.Dim + " IN (%s)" }
	for i, s1 := range subs {
		for j, s2 := range subs {
			if i == j {
				continue
			}
			out = append(out,
				c08Multi{Subs: []c08Sub{s1, s2}, Outer: "SELECT a, ca FROM t8 WHERE " + in(s1) + " AND " + in(s2)},
				c08Multi{Subs: []c08Sub{s1, s2}, Outer: "SELECT a FROM t8 WHERE " + in(s1) + " OR " + in(s2) + " GROUP BY x"},
				c08Multi{Subs: []c08Sub{s1, s2}, Outer: "SELECT * FROM t8 WHERE " + in(s1) + " AND NOT (" + in(s2) + ")"})
			if j > i {
				for k, s3 := range subs {
					if k > j {
						out = append(out, c08Multi{Subs: []c08Sub{s1, s2, s3}, Outer: "SELECT a FROM t8 WHERE " + in(s1) + " AND (" + in(s2) + " OR " + in(s3) + ") GROUP BY y"})
					}
				}
			}
		}
	}
	for _, s1 := range subs {
		out = append(out, c08Multi{Subs: []c08Sub{s1}, Outer: "SELECT a, ca FROM t8 WHERE x IN (SELECT x FROM t8 WHERE " + in(s1) + ")", Nested: true})
	}
	return out
}

// c08SubLiterals runs a subquery alone and returns its distinct values as a literal list ("" , false if a row lacks
// the dimension: membership of "absent" is not defined by the property).
func c08SubLiterals(c *fw.Ctx, env *t8Env, cs c08Case, sb c08Sub) (string, bool) {
	alone := strings.Replace(sb.Sub, "SELECT "+sb.Dim+" FROM", "SELECT _points FROM", 1)
	sub, err := env.db.Query(alone, true)
	if err != nil {
		c.Violate("C08", "query-error", fmt.Sprintf("%s: %v", alone, err), cs)
		return "", false
	}
	distinct := map[string]bool{}
	for _, r := range sub.Rows {
		v, ok := r.Key[sb.Dim]
		if !ok {
			c.Count("in_subqueries_with_absent_value_skipped", 1)
			return "", false
		}
		if lit, ok := c08Literal(v); ok {
			distinct[lit] = true
		}
	}
	var lits []string
	for l := range distinct {
		lits = append(lits, l)
	}
	sort.Strings(lits)
	if len(lits) == 0 {
		if sb.Dim == "x" {
			return "-12345", true
		}
		return "'\u0001never'", true
	}
	return strings.Join(lits, ", "), true
}

func c08CheckMulti(c *fw.Ctx, env *t8Env, cs c08Case) {
	m := c08Multis()[cs.Index]
	c.Eval(1)
	var subArgs, litArgs []interface{}
	for _, sb := range m.Subs {
		l, ok := c08SubLiterals(c, env, cs, sb)
		if !ok {
			return
		}
		subArgs = append(subArgs, sb.Sub)
		litArgs = append(litArgs, l)
	}
	withSub, withList := fmt.Sprintf(m.Outer, subArgs...), fmt.Sprintf(m.Outer, litArgs...)
	if m.Nested {
		mid := fmt.Sprintf("SELECT x FROM t8 WHERE "+m.Subs[0].Dim+" IN (%s)", litArgs[0])
		lx, ok := c08SubLiterals(c, env, cs, c08Sub{"x", mid})
		if !ok {
			return
		}
		withList = fmt.Sprintf("SELECT a, ca FROM t8 WHERE x IN (%s)", lx)
	}
	got, err := env.db.Query(withSub, true)
	if err != nil {
		c.Violate("C08", "query-error", fmt.Sprintf("%s: %v", withSub, err), cs)
		return
	}
	want, err := env.db.Query(withList, true)
	if err != nil {
		c.Violate("C08", "query-error", fmt.Sprintf("%s: %v", withList, err), cs)
		return
	}
	if fmt.Sprint(got.Fields, got.Canon()) != fmt.Sprint(want.Fields, want.Canon()) {
		c.Violate("C08", "in-subqueries-differ-from-literal-lists", fmt.Sprintf("dataset %d:\n%s\n%v %v\n%s\n%v %v", cs.Dataset, withSub, got.Fields, got.Canon(), withList, want.Fields, want.Canon()), cs)
		return
	}
	if len(got.Rows) > 0 {
		c.Nontrivial(fmt.Sprintf("m|%d|%s", cs.Dataset, withSub))
	}
	c.Outcome(fmt.Sprintf("multi-in %d rows", len(got.Rows)))
}

// --- CROSSTAB over FROM (subquery) -------------------------------------------------
//
// The group operator keeps every row of a crosstab query until its source is exhausted, so it is the one consumer of a
// FROM-subquery that holds on to the rows it is handed. Metamorphic oracle: when the inner query only re-aggregates
// (SUM/COUNT fields, group-by a superset of what the outer query uses, an optional WHERE), the outer query over the
// subquery equals the same outer query directly over the table (with that WHERE).

type c08Xtab struct {
	Inner, Where, Outer string
}

func c08Xtabs() []c08Xtab {
	var out []c08Xtab
	inners := []struct{ inner, where string }{
		{"SELECT a, ca FROM t8 GROUP BY x, y", ""},
		{"SELECT a, ca FROM t8 GROUP BY x, y, z", ""},
		{"SELECT a, ca FROM t8 WHERE y = true GROUP BY x, y, z", " WHERE y = true"},
		{"SELECT a, ca FROM t8 WHERE x > 1 GROUP BY x, y", " WHERE x > 1"},
	}
	outers := []string{"SELECT a FROM %s GROUP BY x, CROSSTAB(y)", "SELECT a, ca FROM %s GROUP BY CROSSTAB(y)", "SELECT a FROM %s GROUP BY x, CROSSTABT(y)", "SELECT ca FROM %s GROUP BY y, CROSSTAB(x)", "SELECT a FROM %s GROUP BY CROSSTAB(x, y)"}
	for _, in := range inners {
		for _, o := range outers {
			out = append(out, c08Xtab{in.inner, in.where, o})
		}
	}
	return out
}

func c08CheckXtab(c *fw.Ctx, env *t8Env, cs c08Case) {
	x := c08Xtabs()[cs.Index]
	c.Eval(1)
	nested := fmt.Sprintf(x.Outer, "("+x.Inner+")")
	i := strings.Index(x.Outer, "%s")
	direct := x.Outer[:i] + "t8" + x.Where + x.Outer[i+2:]
	got, err := env.db.Query(nested, true)
	if err != nil {
		c.Violate("C08", "query-error", fmt.Sprintf("%s: %v", nested, err), cs)
		return
	}
	want, err := env.db.Query(direct, true)
	if err != nil {
		c.Violate("C08", "query-error", fmt.Sprintf("%s: %v", direct, err), cs)
		return
	}
	if fmt.Sprint(got.Fields, got.Canon()) != fmt.Sprint(want.Fields, want.Canon()) {
		c.Violate("C08", "crosstab-over-from-subquery-differs", fmt.Sprintf("dataset %d:\n%s\n%v %v\n%s\n%v %v", cs.Dataset, nested, got.Fields, got.Canon(), direct, want.Fields, want.Canon()), cs)
		return
	}
	if len(got.Rows) > 0 {
		c.Nontrivial(fmt.Sprintf("x|%d|%s", cs.Dataset, nested))
	}
	c.Outcome(fmt.Sprintf("xtab %d rows", len(got.Rows)))
}

// --- FROM (subquery) -------------------------------------------------------

type c08From struct {
	Inner string
	Outer string // with %s for the inner
	// outer fields computed over the materialised inner rows taken as points
	Fields  []rm.Field
	GroupBy []string
}

func c08Froms() []c08From {
	sum := func(n string) rm.Expr { return rm.Agg{Kind: "SUM", Val: n} }
	avg := func(n string) rm.Expr { return rm.Agg{Kind: "AVG", Val: n} }
	inners := []string{"SELECT a, ca FROM t8 GROUP BY x, y", "SELECT a, ca FROM t8 GROUP BY x, z", "SELECT a, ca FROM t8", "SELECT a, ca FROM t8 WHERE y = true GROUP BY x, y", "SELECT a, ca FROM t8 GROUP BY x, y HAVING a > 2"}
	var out []c08From
	for _, in := range inners {
		out = append(out,
			c08From{in, "SELECT a FROM (%s) GROUP BY x", []rm.Field{{Name: "a", Expr: sum("a")}}, []string{"x"}},
			c08From{in, "SELECT AVG(a) AS aa, SUM(ca) AS n FROM (%s) GROUP BY x", []rm.Field{{Name: "aa", Expr: avg("a")}, {Name: "n", Expr: sum("ca")}}, []string{"x"}},
			c08From{in, "SELECT MAX(a) AS m, a FROM (%s) GROUP BY _", []rm.Field{{Name: "m", Expr: rm.Agg{Kind: "MAX", Val: "a"}}, {Name: "a", Expr: sum("a")}}, []string{"_"}},
			c08From{in, "SELECT a + ca AS t FROM (%s) GROUP BY x", []rm.Field{{Name: "t", Expr: rm.Bin{Op: "+", L: sum("a"), R: sum("ca")}}}, []string{"x"}},
		)
	}
	return out
}

func c08CheckFrom(c *fw.Ctx, env *t8Env, cs c08Case) {
	f := c08Froms()[cs.Index]
	c.Eval(1)
	inner, err := env.db.Query(f.Inner, true)
	if err != nil {
		c.Violate("C08", "query-error", fmt.Sprintf("%s: %v", f.Inner, err), cs)
		return
	}
	sql := fmt.Sprintf(f.Outer, f.Inner)
	got, err := env.db.Query(sql, true)
	if err != nil {
		c.Violate("C08", "query-error", fmt.Sprintf("%s: %v", sql, err), cs)
		return
	}
	// materialise inner rows as points and aggregate them per (outer key, period)
	type gk struct {
		key string
		ts  int64
	}
	groups := map[gk][]*rm.Pt{}
	for _, r := range inner.Rows {
		vals := map[string]interface{}{}
		for i, fn := range inner.Fields {
			vals[fn] = r.Vals[i]
		}
		var key string
		if len(f.GroupBy) == 1 && f.GroupBy[0] == "_" {
			key = ""
		} else {
			key, _ = rm.KeyOf(r.Key, f.GroupBy)
		}
		g := gk{key, r.TS}
		groups[g] = append(groups[g], &rm.Pt{TS: r.TS, Dims: r.Key, Vals: vals})
	}
	want := map[string][]float64{}
	for g, pts := range groups {
		var vals []float64
		for _, fld := range f.Fields {
			v, _ := fld.Expr.Eval(pts)
			vals = append(vals, v)
		}
		want[fmt.Sprintf("%d|%s", g.ts, g.key)] = vals
	}
	gotm := map[string][]float64{}
	for _, r := range got.Rows {
		var vals []float64
		for _, fld := range f.Fields {
			i := fieldIdx(got, fld.Name)
			if i < 0 {
				c.Violate("C08", "from-subquery-field-missing", fmt.Sprintf("%s: field %s not in %v", sql, fld.Name, got.Fields), cs)
				return
			}
			vals = append(vals, r.Vals[i])
		}
		gotm[fmt.Sprintf("%d|%s", r.TS, rm.KeyString(r.Key))] = vals
	}
	var diffs []string
	for k, w := range want {
		g, ok := gotm[k]
		if !ok {
			diffs = append(diffs, fmt.Sprintf("missing %s %v", k, w))
			continue
		}
		for i := range w {
			if !rm.FloatEq(g[i], w[i]) {
				diffs = append(diffs, fmt.Sprintf("%s field %s = %v, inner rows give %v", k, f.Fields[i].Name, g[i], w[i]))
			}
		}
	}
	for k, g := range gotm {
		if _, ok := want[k]; !ok {
			diffs = append(diffs, fmt.Sprintf("unexpected %s %v", k, g))
		}
	}
	if len(diffs) > 0 {
		sort.Strings(diffs)
		c.Violate("C08", "from-subquery-differs", fmt.Sprintf("dataset %d: %s\n%s\ninner rows: %v", cs.Dataset, sql, strings.Join(diffs, "\n"), inner.Canon()), cs)
		return
	}
	if len(got.Rows) > 0 && len(got.Rows) < len(inner.Rows) {
		c.Nontrivial(fmt.Sprintf("f|%d|%s", cs.Dataset, sql))
	}
	c.Outcome(fmt.Sprintf("from %d rows", len(got.Rows)))
}

func c08Dispatch(c *fw.Ctx, env *t8Env, cs c08Case) {
	switch cs.Kind {
	case "where":
		c08CheckWhere(c, env, cs)
	case "having":
		c08CheckHaving(c, env, cs)
	case "in":
		c08CheckIn(c, env, cs)
	case "multi":
		c08CheckMulti(c, env, cs)
	case "xtab":
		c08CheckXtab(c, env, cs)
	case "from":
		c08CheckFrom(c, env, cs)
	}
}

func init() {
	fw.Register(&fw.Prop{
		ID:          "C08",
		Level:       "exploration",
		Rule:        "6 datasets (typed dims x int, y bool, z string, each sometimes absent; part flushed) × WHERE: 10 atoms (=, <>, <, >, IN, LIKE, IS NULL, IS NOT NULL, bool =, LEN()=) and their negations as units, every unit and every AND/OR pair of units (820 predicates; quick: every third) × 3 query shapes (native, GROUP BY x, GROUP BY y with period(2s)), judged by a three-valued evaluator written for the harness (comparisons against an absent dim are unknown = unconstrained) through the interval oracle: rows must contain exactly the satisfying points (identified by power-of-two values) and aggregates recomputed from them; HAVING: 20 value predicates (comparisons, + - * /, selected / unselected / sometimes-unset / never-set operands) × 4 select lists × 3 shapes against the HAVING-free query with the operands added, no _having column, same width; IN (SELECT …): 12 sub/outer pairs vs the literal list of distinct values, and several subqueries in one WHERE (every ordered pair of 8 subqueries under AND / OR / AND NOT, every triple under s1 AND (s2 OR s3), every subquery nested in another one's WHERE: 232 combinations) vs the same WHERE over the literal lists; FROM (subquery): 20 outer×inner pairs vs re-aggregation of the materialised inner rows, and 20 CROSSTAB / CROSSTABT outer queries over re-aggregating subqueries vs the same outer query directly over the table; non-trivial = filter keeps some but not all",
		Assumptions: []string{"a comparison against an absent dimension leaves the point unconstrained", "HAVING rows in which an operand is unset are unconstrained"},
		Shards:      func(tier string) int { return 12 },
		Budget:      func(tier string) time.Duration { return 30 * time.Minute },
		Run: func(c *fw.Ctx) {
			stride := 3
			if c.Thorough() {
				stride = 1
			}
			preds := c08Preds()
			var idx int64
			for ds := range c08Datasets() {
				idx++
				if !c.Mine(idx) {
					continue
				}
				env := t8Open(c, ds)
				if env == nil {
					return
				}
				for pi := 0; pi < len(preds); pi += stride {
					if c.Expired() {
						c.Incomplete("time budget used up")
						env.db.Close()
						return
					}
					for shape := range c08Shapes {
						cs := c08Case{Kind: "where", Dataset: ds, Index: pi, Shape: shape}
						if pi%97 == 0 && shape == 1 {
							c.Sample("where", map[string]interface{}{"dataset": ds, "sql": fmt.Sprintf(c08Shapes[shape], preds[pi].SQL)})
						}
						c08CheckWhere(c, env, cs)
					}
				}
				nh := len(c08Havings()) * len(c08HavingSelects)
				for hi := 0; hi < nh; hi++ {
					for shape := range c08HavingTails {
						c08CheckHaving(c, env, c08Case{Kind: "having", Dataset: ds, Index: hi, Shape: shape})
					}
				}
				for ii := range c08InQueries {
					c08CheckIn(c, env, c08Case{Kind: "in", Dataset: ds, Index: ii})
				}
				for xi := range c08Xtabs() {
					c08CheckXtab(c, env, c08Case{Kind: "xtab", Dataset: ds, Index: xi})
				}
				for mi := range c08Multis() {
					c08CheckMulti(c, env, c08Case{Kind: "multi", Dataset: ds, Index: mi})
				}
				for fi := range c08Froms() {
					c08CheckFrom(c, env, c08Case{Kind: "from", Dataset: ds, Index: fi})
				}
				c.Sample("having", map[string]interface{}{"sql": "SELECT a, ca FROM t8 GROUP BY x HAVING a / ca >= 4"})
				env.db.Close()
			}
			c.R.Bound = fmt.Sprintf("WHERE predicates with stride %d of 820; all HAVING / IN / FROM cases", stride)
		},
		Replay: func(c *fw.Ctx, raw json.RawMessage) {
			var cs c08Case
			if json.Unmarshal(raw, &cs) != nil {
				return
			}
			env := t8Open(c, cs.Dataset)
			if env == nil {
				return
			}
			defer env.db.Close()
			c08Dispatch(c, env, cs)
		},
	})
}
