package props

import (
	"encoding/json"
	"fmt"
	"sort"
	"strings"
	"time"

	"verif/mc/dbdrv"
	"verif/mc/fw"
	rm "verif/mc/refmodel"
)

// C15 — altering a table keeps the stored values of every field it retains.

type c15Case struct {
	// Start: events run before the enumerated ones (a non-initial start state; checked like the rest)
	Start  []int `json:"start,omitempty"`
	Events []int `json:"events"` // 0..3 Ins(point), 4 Flush, 5 Restart, 6+i Alter(layout i)
}

// start states: empty; two keys on disk; two keys in memory; two keys on disk with the new field already added
func c15Starts() [][]int {
	return [][]int{nil, {0, 2, 4}, {0, 2}, {0, 2, 4, 6 + 7}}
}

func c15Pool() map[string]rm.Field {
	return map[string]rm.Field{
		"a":   {Name: "a", Expr: rm.Agg{Kind: "SUM", Val: "a"}},
		"av":  {Name: "av", Expr: rm.Agg{Kind: "AVG", Val: "a"}},
		"p50": {Name: "p50", Expr: rm.Agg{Kind: "P50", Val: "a", Bounded: true, Lo: 0, Hi: 10}},
		"mx":  {Name: "mx", Expr: rm.Agg{Kind: "MAX", Val: "a"}},
		"n":   {Name: "n", Expr: rm.Agg{Kind: "AVG", Val: "nv"}},
	}
}

type c15Layout struct {
	Fields []string
	Where  string // "", "A", "B"
}

func c15Layouts() []c15Layout {
	base := []string{"a", "av", "p50", "mx"}
	ls := []c15Layout{
		{Fields: base},
		{Fields: []string{"av", "p50", "a", "mx"}},
		{Fields: []string{"p50", "a", "av", "mx"}},
		{Fields: []string{"av", "p50", "mx"}},
		{Fields: []string{"a", "p50", "mx"}},
		{Fields: []string{"a", "av", "mx"}},
		{Fields: []string{"a", "av", "p50"}},
	}
	for pos := 0; pos <= 4; pos++ {
		f := append([]string{}, base[:pos]...)
		f = append(f, "n")
		f = append(f, base[pos:]...)
		ls = append(ls, c15Layout{Fields: f})
	}
	ls = append(ls, c15Layout{Fields: []string{"n", "av", "p50", "mx"}})
	ls = append(ls, c15Layout{Fields: base, Where: "A"}, c15Layout{Fields: base, Where: "B"})
	return ls
}

func c15Table(l c15Layout) *rm.Table {
	pool := c15Pool()
	t := &rm.Table{Name: "t15", Stream: "s", GroupBy: []string{"k"}, Resolution: time.Second, Retention: 100 * time.Second}
	for _, f := range l.Fields {
		t.Fields = append(t.Fields, pool[f])
	}
	if l.Where != "" {
		w := l.Where
		t.Where = &rm.Pred{SQL: fmt.Sprintf("r = '%s'", w), Fn: func(d map[string]interface{}) bool { v, ok := d["r"].(string); return ok && v == w }}
	}
	return t
}

func c15Points() []*rm.Pt {
	return []*rm.Pt{
		{TS: 1 * sec, Dims: D("k", 1, "r", "A"), Vals: D("a", 2.0, "nv", 4.0)},
		{TS: 2 * sec, Dims: D("k", 1, "r", "A"), Vals: D("a", 3.0)},
		{TS: 1 * sec, Dims: D("k", 2, "r", "B"), Vals: D("a", 5.0, "nv", 6.0)},
		{TS: 3 * sec / 2, Dims: D("k", 1, "r", "A"), Vals: D("a", 7.0, "nv", 1.0)},
	}
}

func c15EventName(e int) string {
	switch {
	case e < 4:
		return fmt.Sprintf("Ins(p%d)", e)
	case e == 4:
		return "Flush"
	case e == 5:
		return "Restart"
	}
	l := c15Layouts()[e-6]
	s := "Alter[" + strings.Join(l.Fields, ",")
	if l.Where != "" {
		s += " WHERE r=" + l.Where
	}
	return s + "]"
}

type c15Accepted struct {
	key    string
	period int64
	pt     *rm.Pt
}

func c15Run(c *fw.Ctx, cs c15Case, checkAlways bool) {
	if len(cs.Start) > 0 {
		cs = c15Case{Events: append(append([]int{}, cs.Start...), cs.Events...)}
	}
	layouts := c15Layouts()
	points := c15Points()
	cur := layouts[0]
	t := c15Table(cur)
	dir := newDir(c)
	defer removeDir(dir)
	db, err := dbdrv.Open(dir, dbdrv.Config{Tables: []dbdrv.TableDef{defOf(t)}})
	if err != nil {
		c.Incomplete("open: " + err.Error())
		return
	}
	defer func() { db.Close() }()
	var accepted []c15Accepted
	since := map[string]int{}
	readded := map[string]bool{}
	removed := map[string]bool{}
	for _, f := range cur.Fields {
		since[f] = 0
	}
	pool := c15Pool()
	describe := func(upto int) string {
		var evs []string
		for _, e := range cs.Events[:upto+1] {
			evs = append(evs, c15EventName(e))
		}
		return strings.Join(evs, "; ")
	}
	expectedRows := func(fields []string) map[string][]float64 {
		type gk struct {
			key    string
			period int64
		}
		out := map[string][]float64{}
		groups := map[gk]bool{}
		for _, a := range accepted {
			groups[gk{a.key, a.period}] = true
		}
		for g := range groups {
			vals := make([]float64, len(fields))
			anySet := false
			for i, f := range fields {
				var pts []*rm.Pt
				from := 0
				if f != "_points" {
					from = since[f]
				}
				for j, a := range accepted {
					if j >= from && a.key == g.key && a.period == g.period {
						pts = append(pts, a.pt)
					}
				}
				var ex rm.Expr = rm.Points{}
				if f != "_points" {
					ex = pool[f].Expr
				}
				v, ok := ex.Eval(pts)
				vals[i] = v
				if ok {
					anySet = true
				}
			}
			if anySet {
				out[fmt.Sprintf("%d|%s", g.period, g.key)] = vals
			}
		}
		return out
	}
	check := func(step int) bool {
		queries := [][]string{append([]string{"_points"}, cur.Fields...)}
		for _, f := range cur.Fields {
			queries = append(queries, []string{f})
		}
		if len(cur.Fields) >= 2 {
			queries = append(queries, []string{cur.Fields[len(cur.Fields)-1], cur.Fields[0]})
		}
		type variant struct {
			suffix string
			keep   func(period int64) bool
		}
		// time-bounded variants: the bound sits on a period boundary, so the expectation is exact (a period is
		// returned iff it lies wholly inside the range)
		variants := []variant{
			{"", func(int64) bool { return true }},
			{" ASOF '2019-12-31T23:59:00Z' UNTIL '2020-01-01T00:00:01Z'", func(p int64) bool { return p <= sec }},
			{" ASOF '2020-01-01T00:00:01Z'", func(p int64) bool { return p > sec }},
		}
		type q15 struct {
			fields []string
			v      variant
			star   bool
		}
		var all []q15
		for qi, fields := range queries {
			for vi, v := range variants {
				if qi == 0 && vi > 0 {
					continue
				}
				all = append(all, q15{fields, v, qi == 0})
			}
		}
		if len(cur.Fields) >= 2 {
			// the whole field list, named, under both bounds (each stored column may cover different periods)
			for _, v := range variants[1:] {
				all = append(all, q15{cur.Fields, v, false})
			}
		}
		for qi, q := range all {
			fields := q.fields
			sql := "SELECT * FROM t15"
			if !q.star {
				sql = "SELECT " + strings.Join(fields, ", ") + " FROM t15" + q.v.suffix
			}
			res, err := db.Query(sql, true)
			exp := expectedRows(fields)
			for k := range exp {
				var period int64
				fmt.Sscanf(k, "%d|", &period)
				if !q.v.keep(period) {
					delete(exp, k)
				}
			}
			if err != nil && q.v.suffix != "" && len(exp) == 0 {
				c.Count("bounded_queries_refused_on_empty_range", 1)
				continue
			}
			if err != nil {
				c.Violate("C15", "query-error", fmt.Sprintf("%s: %s: %v", describe(step), sql, err), cs)
				return false
			}
			got := map[string][]float64{}
			for _, r := range res.Rows {
				got[fmt.Sprintf("%d|%s", r.TS, rm.KeyString(r.Key))] = r.Vals
			}
			var diffs []string
			for k, ev := range exp {
				gv, ok := got[k]
				if !ok {
					// a row may be missing only if every constrained field is unset
					missing := false
					for i, f := range fields {
						if !readded[f] && ev[i] != 0 {
							missing = true
						}
					}
					if missing {
						diffs = append(diffs, fmt.Sprintf("missing row %s, expected %v", k, ev))
					}
					continue
				}
				for i, f := range fields {
					if readded[f] {
						continue // removed and re-added: the property does not speak to it
					}
					gi := -1
					for j, rf := range res.Fields {
						if rf == f {
							gi = j
						}
					}
					if gi < 0 {
						diffs = append(diffs, fmt.Sprintf("field %s missing from result %v", f, res.Fields))
						continue
					}
					if !rm.FloatEq(gv[gi], ev[i]) {
						diffs = append(diffs, fmt.Sprintf("row %s field %s = %v, want %v (points processed while the field was present)", k, f, gv[gi], ev[i]))
					}
				}
			}
			for k, gv := range got {
				if _, ok := exp[k]; !ok {
					constrained, anyReadded := false, false
					for _, f := range fields {
						if !readded[f] {
							constrained = true
						} else {
							anyReadded = true
						}
					}
					if constrained && !anyReadded {
						diffs = append(diffs, fmt.Sprintf("unexpected row %s %v", k, gv))
					} else if constrained {
						// a removed-and-re-added field (about which the property says nothing) may
						// account for the row's existence; the constrained fields must be empty in it
						for _, f := range fields {
							if readded[f] {
								continue
							}
							for j, rf := range res.Fields {
								if rf == f && gv[j] != 0 {
									diffs = append(diffs, fmt.Sprintf("row %s field %s = %v, want it empty (no point processed while the field was present)", k, f, gv[j]))
								}
							}
						}
					}
				}
			}
			if len(diffs) > 0 {
				sort.Strings(diffs)
				key := "retained-field-changed"
				for _, d := range diffs {
					if strings.Contains(d, "field n ") {
						key = "added-field-not-empty-or-wrong"
					}
				}
				c.Violate("C15", key, fmt.Sprintf("%s\n%s:\n%s", describe(step), sql, strings.Join(diffs, "\n")), cs)
				return false
			}
			if qi == 0 {
				c.Outcome(fmt.Sprint(res.Fields, res.Canon()))
			}
		}
		return true
	}
	for i, e := range cs.Events {
		switch {
		case e < 4:
			p := points[e]
			if err := db.Insert("s", toPoint(p)); err != nil {
				c.Incomplete("insert: " + err.Error())
				return
			}
			if t.Where == nil || t.Where.Fn(p.Dims) {
				k, _ := rm.KeyOf(p.Dims, t.GroupBy)
				accepted = append(accepted, c15Accepted{k, rm.PeriodEnd(p.TS, t.Resolution), p})
			}
		case e == 4:
			db.FlushAll()
		case e == 5:
			if err := db.Restart(); err != nil {
				c.Incomplete("restart: " + err.Error())
				return
			}
		default:
			next := layouts[e-6]
			nt := c15Table(next)
			if err := db.Alter(dbdrv.Config{Tables: []dbdrv.TableDef{defOf(nt)}}); err != nil {
				c.Incomplete("alter: " + err.Error())
				return
			}
			has := map[string]bool{}
			for _, f := range next.Fields {
				has[f] = true
			}
			for _, f := range cur.Fields {
				if !has[f] {
					removed[f] = true
					delete(since, f)
				}
			}
			for _, f := range next.Fields {
				if _, ok := since[f]; !ok {
					since[f] = len(accepted)
					if removed[f] {
						readded[f] = true
					}
				}
			}
			cur, t = next, nt
		}
		c.Transition(1)
		if c.State(fmt.Sprintf("%v|%v|%v|%s", cur, since, readded, db.StateKey())) || checkAlways {
			if !check(i) {
				return
			}
		}
	}
	if len(db.Panics) > 0 {
		c.Violate("C15", "panic", fmt.Sprint(db.Panics), cs)
	}
}

func init() {
	nEvents := 6 + len(c15Layouts())
	fw.Register(&fw.Prop{
		ID:          "C15",
		Level:       "model_checking",
		Rule:        "all event sequences of the bound over {4 inserts (two keys, colliding periods, with/without the value a new field aggregates, two WHERE classes), Flush, Restart, ApplySchema(l) for 15 layouts: base [a SUM, av AVG, p50 PERCENTILE, mx MAX], rotations, every single deletion, every insertion position of a new AVG field, delete+insert, two WHERE variants} with at most 2 alters, started from the empty table and from three non-initial states (two keys on disk, two keys in memory, two keys on disk with the new field added); after every event on every distinct state: SELECT *, every single field and a reversed two-field subset must equal a model that tracks, per field, the points processed while it was continuously present (re-added fields unconstrained); non-trivial = sequence with an alter after at least one insert",
		Assumptions: []string{"'processed before/after' is made exact by quiescing before each alter and waiting for the row store to take the field update", "PERCENTILE(…,50,0,10,0) over integer points is recomputed independently"},
		Shards: func(tier string) int {
			if tier == "thorough" {
				return 64 // short-lived workers: every closed zenodb instance leaves goroutines and buffers behind
			}
			return 16
		},
		Budget: func(tier string) time.Duration {
			if tier == "thorough" {
				return 45 * time.Minute
			}
			return 4 * time.Minute
		},
		Run: func(c *fw.Ctx) {
			n := 3
			if c.Thorough() {
				n = 4
			}
			total := ipow(nEvents, n)
			var idx int64
			for _, start := range c15Starts() {
				for i := int64(0); i < total; i++ {
					ev := seqFromIndex(i, nEvents, n)
					alters, insBefore, nontrivial := 0, len(start) > 0, false
					for _, e := range ev {
						if e >= 6 {
							alters++
							if insBefore {
								nontrivial = true
							}
						}
						if e < 4 {
							insBefore = true
						}
					}
					if alters > 2 {
						continue
					}
					idx++
					if !c.Mine(idx) {
						continue
					}
					if c.Expired() {
						c.Incomplete("time budget used up")
						return
					}
					cs := c15Case{Start: start, Events: ev}
					c.Eval(1)
					c.Trace(1)
					if nontrivial {
						c.Nontrivial(fmt.Sprint(start, ev))
						var names []string
						for _, e := range ev {
							names = append(names, c15EventName(e))
						}
						c.Sample("alter-after-insert", names)
					}
					c15Run(c, cs, false)
				}
			}
			c.R.Bound = fmt.Sprintf("all sequences of length %d over %d events with <= 2 alters, from each of %d start states (empty; two keys flushed; two keys in memory; two keys flushed and the new field added)", n, nEvents, len(c15Starts()))
		},
		Replay: func(c *fw.Ctx, raw json.RawMessage) {
			var cs c15Case
			if json.Unmarshal(raw, &cs) != nil {
				return
			}
			c15Run(c, cs, true)
		},
	})
}
