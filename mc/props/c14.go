package props

import (
	"encoding/json"
	"fmt"
	"strings"
	"time"

	"verif/mc/dbdrv"
	"verif/mc/fw"
	rm "verif/mc/refmodel"
)

// C14 — retention drops only expired data, and expired data stays gone.
// Sequence exploration with the virtual clock as an event.

type c14Case struct {
	R      int `json:"r"`       // retention in resolutions
	ResSec int `json:"res_sec"` // resolution in seconds
	// Start: events run before the enumerated ones (a non-initial start state; checked like the rest)
	Start  []int `json:"start,omitempty"`
	Events []int `json:"events"`
}

// start states: empty table; one point, one resolution old, already on disk
func c14Starts() [][]int { return [][]int{nil, {1, 13}} }

// events: 0..9 Ins(key=e/5, j=c14J[e%5]); 10 Clock(+1 res); 11 Clock(+R res); 12 Clock(+1/2 res); 13 Flush; 14 Flush×10;
// 15 (Flush, empty Flush)×10: ten data-carrying flushes, each followed by a flush that finds the memstore empty (an idle
// flush-timer tick or a forced flush of an idle table) — the bound of ten counts data-carrying flushes only; 16 Restart
const c14NEvents = 17

func c14Js(r int) []int { return []int{0, 1, r - 1, r, r + 1} }

func c14EventName(cs c14Case, e int) string {
	switch {
	case e < 10:
		return fmt.Sprintf("Ins(k%d, now-%d·res)", e/5+1, c14Js(cs.R)[e%5])
	case e == 10:
		return "Clock(+1·res)"
	case e == 11:
		return "Clock(+R·res)"
	case e == 12:
		return "Clock(+½·res)"
	case e == 13:
		return "Flush"
	case e == 14:
		return "Flush×10"
	case e == 15:
		return "(Flush, empty Flush)×10"
	}
	return "Restart"
}

func c14Table(cs c14Case) *rm.Table {
	res := time.Duration(cs.ResSec) * time.Second
	return &rm.Table{Name: "t14", Stream: "s", GroupBy: []string{"k"}, Resolution: res, Retention: time.Duration(cs.R) * res,
		Fields: []rm.Field{{Name: "a", Expr: rm.Agg{Kind: "SUM", Val: "a"}}, {Name: "ca", Expr: rm.Agg{Kind: "COUNT", Val: "a"}}}}
}

type c14Gone struct {
	before int64 // periods with end <= before must be gone from disk for good
}

func c14Run(c *fw.Ctx, cs c14Case, checkAlways bool) {
	if len(cs.Start) > 0 {
		cs = c14Case{R: cs.R, ResSec: cs.ResSec, Events: append(append([]int{}, cs.Start...), cs.Events...)}
	}
	t := c14Table(cs)
	res := int64(t.Resolution)
	ret := int64(t.Retention)
	start := int64(40 * time.Second)
	dir := newDir(c)
	defer removeDir(dir)
	db, err := dbdrv.OpenAt(dir, dbdrv.Config{Tables: []dbdrv.TableDef{defOf(t)}}, dbdrv.Epoch.Add(time.Duration(start)))
	if err != nil {
		c.Incomplete("open: " + err.Error())
		return
	}
	defer func() { db.Close() }()
	model := rm.NewState(start, t)
	type dropped struct {
		key    string
		period int64
	}
	var droppedPts []dropped
	goneBefore := int64(-1 << 62)
	val := 1.0
	insert := func(key string, tsv int64) bool {
		p := &rm.Pt{TS: tsv, Dims: D("k", key), Vals: D("a", val)}
		val *= 2 // distinct powers of two: any wrong combination of points shows in the sum
		before := len(model.Stored["t14"])
		if err := db.Insert("s", toPoint(p)); err != nil {
			c.Incomplete("insert: " + err.Error())
			return false
		}
		model.Insert("s", p)
		if len(model.Stored["t14"]) == before {
			k, _ := rm.KeyOf(p.Dims, t.GroupBy)
			droppedPts = append(droppedPts, dropped{k, rm.PeriodEnd(p.TS, t.Resolution)})
		}
		return true
	}
	names := fieldNames(t.AllFields())
	describe := func(upto int) string {
		var evs []string
		for _, e := range cs.Events[:upto+1] {
			evs = append(evs, c14EventName(cs, e))
		}
		return fmt.Sprintf("R=%d·res res=%ds events %s", cs.R, cs.ResSec, strings.Join(evs, "; "))
	}
	check := func(step int) bool {
		now := model.Now
		if int64(db.Now.Sub(dbdrv.Epoch)) != now {
			c.Violate("C14", "clock-mismatch", fmt.Sprintf("%s: db clock %v, model %v", describe(step), db.Now.Sub(dbdrv.Epoch), time.Duration(now)), cs)
			return false
		}
		expected := map[string]rm.Row{}
		for _, r := range model.NativeRows(t) {
			expected[fmt.Sprintf("%d|%s", r.TS, r.Key)] = r
		}
		fail := func(key, msg string) bool {
			c.Violate("C14", key, fmt.Sprintf("%s (now=%v, retention=%v):\n%s", describe(step), time.Duration(now), t.Retention, msg), cs)
			return false
		}
		checkRows := func(label string, res0 *dbdrv.Result, fields []string, maxAge int64, mustHaveAfter int64, requirePresence bool) bool {
			seen := map[string]bool{}
			for _, r := range res0.Rows {
				k := fmt.Sprintf("%d|%s", r.TS, rm.KeyString(r.Key))
				seen[k] = true
				e, ok := expected[k]
				if !ok {
					return fail("expired-or-unknown-point-returned", fmt.Sprintf("%s returned row %s %v for which no point was ever accepted (a point older than the retention period when processed must never be stored)", label, k, r.Vals))
				}
				if maxAge > -1<<61 && r.TS < maxAge {
					return fail("expired-period-returned-by-grouped-query", fmt.Sprintf("%s returned period ending %v, more than one resolution before now - retention = %v", label, time.Duration(r.TS), time.Duration(now-ret)))
				}
				if r.TS <= now-ret {
					// the period is no longer inside the retention window: it may have
					// been dropped partly (by a flush) or not at all; what is returned
					// must still consist of accepted points only (values are distinct
					// powers of two, so the sum identifies the points)
					ai := -1
					for j, f := range res0.Fields {
						if f == "a" {
							ai = j
						}
					}
					if ai >= 0 {
						got, all := uint64(r.Vals[ai]), uint64(e.Vals[1])
						if float64(got) != r.Vals[ai] || got&^all != 0 {
							return fail("expired-period-has-foreign-value", fmt.Sprintf("%s row %s: a = %v is not a sum of accepted points (%v)", label, k, r.Vals[ai], e.Vals[1]))
						}
					}
					continue
				}
				for fi, n := range fields {
					gi := -1
					for j, f := range res0.Fields {
						if f == n {
							gi = j
						}
					}
					mi := -1
					for j, f := range names {
						if f == n {
							mi = j
						}
					}
					if gi < 0 || mi < 0 || !rm.FloatEq(r.Vals[gi], e.Vals[mi]) {
						_ = fi
						return fail("wrong-value", fmt.Sprintf("%s row %s field %s = %v, accepted points give %v", label, k, n, valAt(r.Vals, gi), e.Vals[mi]))
					}
				}
			}
			if requirePresence {
				for k, e := range expected {
					if e.TS > mustHaveAfter && e.TS <= now+res && !seen[k] {
						return fail("live-period-dropped", fmt.Sprintf("%s does not return row %s although its period (ending %v) is still inside the retention window (now - retention = %v)", label, k, time.Duration(e.TS), time.Duration(now-ret)))
					}
				}
			}
			return true
		}
		// (1)+(2): native ungrouped scan
		r1, err := db.Query("SELECT * FROM t14", true)
		if err != nil {
			return fail("query-error", err.Error())
		}
		if !checkRows("SELECT * FROM t14", r1, names, -1<<62, now-ret, true) {
			return false
		}
		c.Outcome(fmt.Sprint(r1.Canon()))
		// (3): grouped and time-ranged queries
		r2, err := db.Query("SELECT a, ca FROM t14 GROUP BY k", true)
		if err != nil {
			return fail("query-error", err.Error())
		}
		// grouped queries round their window to whole periods: only periods wholly inside must be present
		asOf, _ := model.Window(t)
		if !checkRows("SELECT a, ca FROM t14 GROUP BY k", r2, []string{"a", "ca"}, now-ret-res, asOf+res-1, true) {
			return false
		}
		rel := fmt.Sprintf("SELECT a FROM t14 ASOF '-%ds'", (cs.R-1)*cs.ResSec)
		r3, err := db.Query(rel, true)
		if err == nil {
			if !checkRows(rel, r3, []string{"a"}, now-ret-res, 1<<62, false) {
				return false
			}
		} else {
			c.Count("range_queries_refused", 1)
		}
		wide := fmt.Sprintf("SELECT a FROM t14 ASOF '-%ds'", (cs.R+3)*cs.ResSec)
		r4, err := db.Query(wide, true)
		if err == nil {
			if !checkRows(wide, r4, []string{"a"}, now-ret-res, 1<<62, false) {
				return false
			}
		} else {
			c.Count("range_queries_refused", 1)
		}
		// storage level
		file, mem, err := db.StoredPeriods("t14")
		if err != nil {
			c.Incomplete(err.Error())
			return false
		}
		for _, sp := range model.Stored["t14"] {
			if sp.Period > now-ret {
				if !file[sp.Key][sp.Period] && !mem[sp.Key][sp.Period] {
					return fail("live-period-dropped-from-storage", fmt.Sprintf("period ending %v of key %s is inside the retention window but is neither in the file nor in the memstore", time.Duration(sp.Period), sp.Key))
				}
			}
		}
		for _, dp := range droppedPts {
			if _, ok := expected[fmt.Sprintf("%d|%s", dp.period, dp.key)]; ok {
				continue // another, accepted, point shares the period
			}
			if file[dp.key][dp.period] || mem[dp.key][dp.period] {
				return fail("expired-point-stored", fmt.Sprintf("a point of key %s in period ending %v was older than the retention period when processed, yet the period is stored", dp.key, time.Duration(dp.period)))
			}
		}
		// (4)
		for key, ps := range file {
			for p := range ps {
				if p <= goneBefore {
					return fail("expired-period-back-on-disk", fmt.Sprintf("period ending %v of key %s had expired when a truncating flush completed (now - retention was %v then) but is on disk", time.Duration(p), key, time.Duration(goneBefore)))
				}
			}
		}
		for _, r := range r1.Rows {
			if r.TS <= goneBefore {
				return fail("expired-period-reappears", fmt.Sprintf("period ending %v had expired when a truncating flush completed but a query returns it", time.Duration(r.TS)))
			}
		}
		return true
	}
	auxN := 0
	for i, e := range cs.Events {
		now := model.Now
		switch {
		case e < 10:
			j := c14Js(cs.R)[e%5]
			if !insert(fmt.Sprintf("k%d", e/5+1), now-int64(j)*res) {
				return
			}
		case e == 10:
			db.SetClock(dbdrv.Epoch.Add(time.Duration(now + res)))
			model.Advance(now + res)
		case e == 11:
			db.SetClock(dbdrv.Epoch.Add(time.Duration(now + int64(cs.R)*res)))
			model.Advance(now + int64(cs.R)*res)
		case e == 12:
			db.SetClock(dbdrv.Epoch.Add(time.Duration(now + res/2)))
			model.Advance(now + res/2)
		case e == 13:
			db.FlushAll()
		case e == 14 || e == 15:
			for f := 0; f < 10; f++ {
				auxN++
				if !insert(fmt.Sprintf("aux%d", auxN%3), now) {
					return
				}
				db.FlushAll()
				c.Transition(2)
				if e == 15 {
					db.FlushAll() // nothing in the memstore
					c.Transition(1)
				}
			}
			// a period has expired once its end is strictly before now - retention
			// (a point exactly at now - retention is still accepted)
			if now-ret-1 > goneBefore {
				goneBefore = now - ret - 1
			}
		default:
			if err := db.Restart(); err != nil {
				c.Incomplete("restart: " + err.Error())
				return
			}
		}
		c.Transition(1)
		if c.State(fmt.Sprintf("%d|%d|%d|%s", cs.R, cs.ResSec, goneBefore-model.Now, db.StateKey())) || checkAlways {
			if !check(i) {
				return
			}
		}
	}
	if len(db.Panics) > 0 {
		c.Violate("C14", "panic", fmt.Sprint(db.Panics), cs)
	}
}

func init() {
	fw.Register(&fw.Prop{
		ID:          "C14",
		Level:       "model_checking",
		Rule:        "all event sequences of the bound over {Ins(k1|k2, now - j·res) for j in {0,1,R-1,R,R+1}, Clock(+1·res), Clock(+R·res), Clock(+½·res), Flush, Flush×10 (ten data-carrying flushes: one of them truncates), (Flush, empty Flush)×10 (the same with an idle flush between the data-carrying ones), Restart} for retention/resolution configurations (R·res, res), started from the empty table and from a table whose file already holds a point one resolution old; after every event on every distinct state: (1) no row for a period in which only expired points arrived, values equal the accepted points only (native, grouped, relative-range and wider-than-retention queries), (2) every accepted period ending after now - retention is returned by the native scan and present in VerifDump, (3) grouped/ranged queries return nothing ending before now - retention - res, (4) periods expired when a Flush×10 completed are absent from the file store and from every later query; non-trivial = sequence containing a clock advance or late point together with a flush/restart",
		Assumptions: []string{"'older' is strict: a point exactly at now - retention is kept", "a wider-than-retention ASOF may be refused by the planner"},
		Shards: func(tier string) int {
			if tier == "thorough" {
				return 64 // short-lived workers: every closed zenodb instance leaves goroutines and buffers behind
			}
			return 16
		},
		Budget: func(tier string) time.Duration {
			if tier == "thorough" {
				return 45 * time.Minute
			}
			return 4 * time.Minute
		},
		Run: func(c *fw.Ctx) {
			type cfg struct{ r, res, n int }
			cfgs := []cfg{{3, 1, 3}, {2, 2, 2}, {5, 1, 2}}
			if c.Thorough() {
				cfgs = []cfg{{3, 1, 4}, {2, 1, 3}, {5, 1, 3}, {2, 2, 3}, {3, 2, 3}, {5, 2, 3}}
			}
			var idx int64
			for _, cf := range cfgs {
				total := ipow(c14NEvents, cf.n)
				for si := int64(0); si < total*int64(len(c14Starts())); si++ {
					i, start := si%total, c14Starts()[si/total]
					idx++
					if !c.Mine(idx) {
						continue
					}
					if c.Expired() {
						c.Incomplete(fmt.Sprintf("time budget used up in config R=%d res=%d length %d", cf.r, cf.res, cf.n))
						return
					}
					cs := c14Case{R: cf.r, ResSec: cf.res, Start: start, Events: seqFromIndex(i, c14NEvents, cf.n)}
					c.Eval(1)
					c.Trace(1)
					hasClock, hasFlush := false, len(start) > 0
					var evs []string
					for _, e := range cs.Events {
						evs = append(evs, c14EventName(cs, e))
						if e == 10 || e == 11 || e == 12 || e%5 >= 2 && e < 10 {
							hasClock = true
						}
						if e >= 13 {
							hasFlush = true
						}
					}
					if hasClock && hasFlush {
						c.Nontrivial(fmt.Sprint(cs))
						c.Sample(fmt.Sprintf("R%d-res%d", cf.r, cf.res), map[string]interface{}{"R": cf.r, "res_s": cf.res, "events": evs})
					}
					c14Run(c, cs, false)
				}
			}
			c.R.Bound = fmt.Sprint("configs (R, res s, length): ", cfgs)
		},
		Replay: func(c *fw.Ctx, raw json.RawMessage) {
			var cs c14Case
			if json.Unmarshal(raw, &cs) != nil {
				return
			}
			c14Run(c, cs, true)
		},
	})
}
