package props

import (
	"encoding/json"
	"fmt"
	"strings"
	"time"

	"verif/mc/dbdrv"
	"verif/mc/fw"
	rm "verif/mc/refmodel"
)

// C03 — query results do not depend on flush timing or on where data lives.
// Metamorphic sweep: for each insert sequence, every flush/restart schedule
// must give the rows of the no-flush schedule (and of the reference model).

type c03Case struct {
	Schema int  `json:"schema"`  // 0 = t1, 1 = tp (PERCENTILE + SHIFT fields)
	MemCap bool `json:"mem_cap"` // MaxMemoryRatio 0.9: forced flushes are sorted through emsort
	// Alpha 1: the keyed alphabet (three keys), so that a flush merges a file holding several keys that have
	// nothing in the memstore (their rows pass through in encoded form)
	Alpha   int   `json:"alpha,omitempty"`
	Inserts []int `json:"inserts"`
	// Gaps[i] is what happens after insert i: 0 nothing, 1 flush, 2 clean restart, 3 flush + restart
	Gaps []int `json:"gaps"`
	// Long > 0: instead of Inserts/Gaps, Long single-datum flushes in a row (crosses the every-10th truncating flush)
	Long int `json:"long,omitempty"`
}

func c03Alphabet() []*rm.Pt {
	k := func() map[string]interface{} { return D("x", 1, "y", true) }
	return []*rm.Pt{
		{TS: 1 * sec, Dims: k(), Vals: D("a", 2.0)},
		{TS: 2 * sec, Dims: k(), Vals: D("a", 3.0, "w", 2)},
		{TS: 4 * sec, Dims: k(), Vals: D("a", 5.0)},                             // leaves a gap at 3 s
		{TS: 3 * sec / 2, Dims: k(), Vals: D("a", 1.0, "w", 1)},                 // same period as [1]
		{TS: 6 * sec, Dims: k(), Vals: D("a", 4.0)},                             // newest
		{TS: 2 * sec, Dims: D("x", 2, "y", false), Vals: D("a", 7.0, "b", 0.5)}, // second key
		{TS: sec / 2, Dims: k(), Vals: D("a", 6.0)},                             // older period than anything stored
		{TS: 3 * sec, Dims: k(), Vals: D("a", -1.0, "b", 0.5)},                  // fills the gap
	}
}

func c03KeyedAlphabet() []*rm.Pt {
	k := func(i int) map[string]interface{} { return D("x", i, "y", true) }
	return []*rm.Pt{
		{TS: 1 * sec, Dims: k(1), Vals: D("a", 1.0)},
		{TS: 1 * sec, Dims: k(2), Vals: D("a", 2.0, "w", 2)},
		{TS: 1 * sec, Dims: k(3), Vals: D("a", 4.0)},
		{TS: 2 * sec, Dims: k(1), Vals: D("a", 8.0, "b", 0.5)},
		{TS: 2 * sec, Dims: k(2), Vals: D("a", 16.0)},
		{TS: 3 * sec, Dims: k(3), Vals: D("a", 32.0, "w", 1)},
	}
}

func c03AlphabetOf(cs c03Case) []*rm.Pt {
	if cs.Alpha == 1 {
		return c03KeyedAlphabet()
	}
	return c03Alphabet()
}

func tableTP() *rm.Table {
	sumA := rm.Agg{Kind: "SUM", Val: "a"}
	return &rm.Table{Name: "tp", Stream: "s", GroupBy: []string{"x", "y"}, Resolution: time.Second, Retention: 8 * time.Second,
		Fields: []rm.Field{
			{Name: "a", Expr: sumA},
			{Name: "av", Expr: rm.Agg{Kind: "AVG", Val: "a"}},
			{Name: "p50", Expr: rm.Agg{Kind: "P50", Val: "a", Bounded: true, Lo: 0, Hi: 10}},
			{Name: "mx", Expr: rm.Agg{Kind: "MAX", Val: "a"}},
			{Name: "sa", Expr: sumA}, // SHIFT only acts when a query re-aggregates; natively sa == a
		}}
}

// tp additionally carries a PERCENTILE and a SHIFT field which the reference
// model does not compute; they are covered by the schedule-vs-schedule
// comparison.
func defTP() dbdrv.TableDef {
	return dbdrv.TableDef{Name: "tp", Stream: "s", Retention: 8 * time.Second,
		SQL: "SELECT SUM(a) AS a, AVG(a) AS av, PERCENTILE(a, 50, 0, 10, 0) AS p50, MAX(a) AS mx, SHIFT(SUM(a), '-1s') AS sa FROM s GROUP BY x, y, period(1s)"}
}

func c03Setup(schema int, memCap bool) (*rm.Table, dbdrv.Config, []string) {
	cfg := dbdrv.Config{}
	if memCap {
		cfg.MaxMemoryRatio = 0.9
	}
	if schema == 0 {
		t := tableT1()
		cfg.Tables = []dbdrv.TableDef{defOf(t)}
		return t, cfg, []string{"*", "a", "ca", "mn", "mx", "av", "wa", "ratio", "lin", "ay", "bav", "b", "a, ca", "a, av", "mn, b", "b, a", "av, a, _points"}
	}
	t := tableTP()
	cfg.Tables = []dbdrv.TableDef{defTP()}
	return t, cfg, []string{"*", "a", "av", "p50", "mx", "sa", "a, av", "av, p50", "a, p50", "p50, mx", "sa, a", "mx, p50, a"}
}

// c03Execute runs one schedule and returns, per query, the canonical rows.
func c03Execute(c *fw.Ctx, cs c03Case, gaps []int, report bool) (map[string][]string, *rm.State, bool) {
	t, cfg, queries := c03Setup(cs.Schema, cs.MemCap)
	alpha := c03AlphabetOf(cs)
	dir := newDir(c)
	defer removeDir(dir)
	db, err := dbdrv.Open(dir, cfg)
	if err != nil {
		c.Incomplete("open: " + err.Error())
		return nil, nil, false
	}
	defer func() { db.Close() }()
	model := rm.NewState(0, t)
	fail := func(key, msg string) {
		if report {
			c.Violate("C03", key, msg, cs)
		}
	}
	diskEqualsMem := func(when string) bool {
		for _, q := range []string{"*"} {
			sql := fmt.Sprintf("SELECT %s FROM %s", q, t.Name)
			m, err1 := db.Query(sql, true)
			d, err2 := db.Query(sql, false)
			if err1 != nil || err2 != nil {
				fail("query-error", fmt.Sprintf("%s: %v %v", sql, err1, err2))
				return false
			}
			if fmt.Sprint(m.Canon()) != fmt.Sprint(d.Canon()) {
				fail("disk-differs-from-memory-after-flush", fmt.Sprintf("%s %s (gaps %v): disk-only\n%s\nmem-inclusive\n%s", when, sql, gaps, strings.Join(d.Canon(), "\n"), strings.Join(m.Canon(), "\n")))
				return false
			}
		}
		return true
	}
	inserts := cs.Inserts
	if cs.Long > 0 {
		inserts = nil
		for i := 0; i < cs.Long; i++ {
			p := &rm.Pt{TS: int64(1+i%6) * sec, Dims: D("x", 1+i%2, "y", true), Vals: D("a", float64(1+i))}
			if err := db.Insert("s", toPoint(p)); err != nil {
				c.Incomplete("insert: " + err.Error())
				return nil, nil, false
			}
			model.Insert("s", p)
			c.Transition(1)
			if gaps != nil {
				db.FlushAll()
				c.Transition(1)
				if !diskEqualsMem(fmt.Sprintf("after flush %d", i+1)) {
					return nil, nil, false
				}
			}
		}
	}
	for i, e := range inserts {
		p := alpha[e]
		if err := db.Insert("s", toPoint(p)); err != nil {
			c.Incomplete("insert: " + err.Error())
			return nil, nil, false
		}
		model.Insert("s", p)
		c.Transition(1)
		g := 0
		if gaps != nil {
			g = gaps[i]
		}
		if g&1 != 0 {
			db.FlushAll()
			c.Transition(1)
			if !diskEqualsMem(fmt.Sprintf("after flush following insert %d", i)) {
				return nil, nil, false
			}
		}
		if g&2 != 0 {
			if err := db.Restart(); err != nil {
				c.Incomplete("restart: " + err.Error())
				return nil, nil, false
			}
			c.Transition(1)
		}
		c.State(db.StateKey())
	}
	out := map[string][]string{}
	for _, q := range queries {
		sql := fmt.Sprintf("SELECT %s FROM %s", q, t.Name)
		res, err := db.Query(sql, true)
		if err != nil {
			fail("query-error", fmt.Sprintf("%s: %v", sql, err))
			return nil, nil, false
		}
		out[q] = append([]string{fmt.Sprint(res.Fields)}, res.Canon()...)
		if q == "*" {
			// the reference model guards against a bug common to all schedules
			asOf, until := model.Window(t)
			fields := t.AllFields()
			if diff := compareRows(res, model.RowsFor(t, fields), fieldNames(fields), asOf, until); diff != "" {
				fail("differs-from-reference-model", fmt.Sprintf("%s (inserts %v gaps %v):\n%s", sql, cs.Inserts, gaps, diff))
				return nil, nil, false
			}
		}
	}
	if len(db.Panics) > 0 {
		fail("panic", fmt.Sprint(db.Panics))
		return nil, nil, false
	}
	return out, model, true
}

func c03Run(c *fw.Ctx, cs c03Case) {
	base, _, ok := c03Execute(c, c03Case{Schema: cs.Schema, MemCap: cs.MemCap, Alpha: cs.Alpha, Inserts: cs.Inserts, Long: cs.Long}, nil, true)
	if !ok {
		return
	}
	got, _, ok := c03Execute(c, cs, cs.Gaps, true)
	if !ok {
		return
	}
	_, _, queries := c03Setup(cs.Schema, cs.MemCap)
	for _, q := range queries {
		if fmt.Sprint(base[q]) != fmt.Sprint(got[q]) {
			c.Violate("C03", "schedule-dependent-result", fmt.Sprintf("SELECT %s: inserts %v with gaps %v (1=flush 2=restart 3=both) gives\n%s\nbut without any flush\n%s",
				q, cs.Inserts, cs.Gaps, strings.Join(got[q], "\n"), strings.Join(base[q], "\n")), cs)
			return
		}
	}
	c.Outcome(fmt.Sprint(got["*"]))
}

func c03Enumerate(c *fw.Ctx, schema int, memCap bool, n int, gapKinds int, idx *int64) bool {
	return c03EnumerateA(c, schema, memCap, 0, n, gapKinds, idx)
}

func c03EnumerateA(c *fw.Ctx, schema int, memCap bool, alpha int, n int, gapKinds int, idx *int64) bool {
	k := len(c03AlphabetOf(c03Case{Alpha: alpha}))
	total := ipow(k, n)
	nsched := ipow(gapKinds, n)
	for si := int64(0); si < total; si++ {
		inserts := seqFromIndex(si, k, n)
		for gi := int64(1); gi < nsched; gi++ { // 0 = no flush at all = the baseline itself
			*idx++
			if !c.Mine(*idx) {
				continue
			}
			if c.Expired() {
				c.Incomplete(fmt.Sprintf("time budget used up (schema %d memcap %v length %d)", schema, memCap, n))
				return false
			}
			cs := c03Case{Schema: schema, MemCap: memCap, Alpha: alpha, Inserts: inserts, Gaps: seqFromIndex(gi, gapKinds, n)}
			c.Eval(1)
			c.Trace(1)
			c.Nontrivial(fmt.Sprint(cs))
			c.Sample(fmt.Sprintf("schema%d-mem%v-alpha%d", schema, memCap, alpha), cs)
			c03Run(c, cs)
		}
	}
	return true
}

func init() {
	fw.Register(&fw.Prop{
		ID:          "C03",
		Level:       "model_checking",
		Rule:        "insert sequences over an 8-point alphabet (several periods of one key with a gap, collisions, a point older and one newer than stored data, a second key) and over a 6-point keyed alphabet (three keys × two periods, so that flushes merge files holding several keys absent from the memstore) × every flush/restart schedule (after each insert: nothing, FlushAll, clean restart, both) × schemas {t1, tp with PERCENTILE and SHIFT fields} × MaxMemoryRatio {0, 0.9 (sorted forced flush)}; plus 11 and 21 single-datum flushes (crossing the truncating 10th flush); 17/12 field-subset queries each; oracle: identical rows to the no-flush schedule and to the reference model, disk-only == mem-inclusive right after each flush; every schedule with >=1 flush/restart is non-trivial",
		Assumptions: []string{"timed flushes are explored as the forced-flush actor message (same code path apart from allowSort)", "PERCENTILE and SHIFT fields are compared schedule-vs-schedule only"},
		Shards: func(tier string) int {
			if tier == "thorough" {
				return 64 // short-lived workers: every closed zenodb instance leaves goroutines and buffers behind
			}
			return 16
		},
		Budget: func(tier string) time.Duration {
			if tier == "thorough" {
				return 45 * time.Minute
			}
			return 4 * time.Minute
		},
		Run: func(c *fw.Ctx) {
			var idx int64
			// long schedules crossing the 10th flush
			for schema := 0; schema < 2; schema++ {
				for _, long := range []int{11, 21} {
					idx++
					if c.Mine(idx) {
						cs := c03Case{Schema: schema, Long: long, Gaps: []int{1}}
						c.Eval(1)
						c.Trace(1)
						c.Nontrivial(fmt.Sprint(cs))
						c03Run(c, cs)
					}
				}
			}
			if c.Thorough() {
				if !c03Enumerate(c, 0, false, 3, 4, &idx) || !c03Enumerate(c, 1, false, 3, 4, &idx) ||
					!c03Enumerate(c, 0, true, 3, 4, &idx) || !c03Enumerate(c, 1, true, 2, 4, &idx) ||
					!c03Enumerate(c, 0, false, 4, 2, &idx) ||
					!c03EnumerateA(c, 0, true, 1, 3, 4, &idx) || !c03EnumerateA(c, 0, false, 1, 3, 4, &idx) ||
					!c03EnumerateA(c, 0, true, 1, 4, 2, &idx) || !c03EnumerateA(c, 1, true, 1, 3, 2, &idx) {
					return
				}
				c.R.Bound = "length 3 all 4^3 schedules (t1, tp, t1 sorted), tp sorted length 2, t1 length 4 with flush/no-flush gaps; keyed alphabet: length 3 all 4^3 schedules (t1 sorted and unsorted), length 4 flush gaps (t1 sorted), length 3 flush gaps (tp sorted)"
			} else {
				if !c03Enumerate(c, 0, false, 3, 2, &idx) || !c03Enumerate(c, 0, false, 2, 4, &idx) ||
					!c03Enumerate(c, 1, false, 2, 4, &idx) || !c03Enumerate(c, 0, true, 2, 4, &idx) || !c03Enumerate(c, 1, true, 2, 2, &idx) ||
					!c03EnumerateA(c, 0, true, 1, 3, 2, &idx) || !c03EnumerateA(c, 0, false, 1, 3, 2, &idx) {
					return
				}
				c.R.Bound = "t1 length 3 flush/no-flush gaps; length 2 all 4^2 schedules for t1, tp, t1 sorted; tp sorted flush gaps; keyed alphabet length 3 flush gaps (t1 sorted and unsorted)"
			}
		},
		Replay: func(c *fw.Ctx, raw json.RawMessage) {
			var cs c03Case
			if json.Unmarshal(raw, &cs) != nil {
				return
			}
			c03Run(c, cs)
		},
	})
}
