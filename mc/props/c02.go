package props

import (
	"crypto/sha256"
	"encoding/binary"
	"encoding/hex"
	"encoding/json"
	"fmt"
	"os"
	"os/exec"
	"path/filepath"
	"sort"
	"strings"
	"sync"
	"sync/atomic"
	"time"

	"github.com/getlantern/wal"
	"github.com/getlantern/zenodb"

	"verif/mc/dbdrv"
	"verif/mc/fw"
	rm "verif/mc/refmodel"
)

// C02 — crash recovery applies every acknowledged insert exactly once.
// Crash-image enumeration: a history runs once on the real write path; at
// every hit of every instrumented step the data directory is copied (that copy
// is exactly what a SIGKILL at that instant leaves: flush output is written
// outside the data directory and renamed in, and the WAL is only appended by
// the blocked driver). Every distinct image is recovered and compared with the
// reference model of acknowledged (plus possibly the in-flight) inserts.

type c02Case struct {
	// Start: events run before the enumerated ones (a non-initial start state; imaged and recovered like the rest)
	Start  []int `json:"start,omitempty"`
	Events []int `json:"events"` // 0..3 inserts, 4 Flush(t1), 5 FlushAll, 6 clean Restart
	// replay: only the image taken at this hit of this point (0 = all)
	Point string `json:"point,omitempty"`
	Hit   int    `json:"hit,omitempty"`
	Torn  int    `json:"torn,omitempty"` // bytes of the in-flight WAL entry kept (-1 = n/a)
	Round int    `json:"round,omitempty"`
}

func c02Tables() ([]*rm.Table, dbdrv.Config) {
	t1 := &rm.Table{Name: "t1", Stream: "s", GroupBy: []string{"k"}, Resolution: time.Second, Retention: 100 * time.Second,
		Fields: []rm.Field{{Name: "a", Expr: rm.Agg{Kind: "SUM", Val: "a"}}, {Name: "ca", Expr: rm.Agg{Kind: "COUNT", Val: "a"}}}}
	t2 := &rm.Table{Name: "t2", Stream: "s", GroupBy: []string{"k"}, Resolution: time.Second, Retention: 100 * time.Second,
		Where:  &rm.Pred{SQL: "r = 'A'", Fn: condRA},
		Fields: []rm.Field{{Name: "a", Expr: rm.Agg{Kind: "SUM", Val: "a"}}, {Name: "mx", Expr: rm.Agg{Kind: "MAX", Val: "a"}}}}
	return []*rm.Table{t1, t2}, dbdrv.Config{Tables: []dbdrv.TableDef{defOf(t1), defOf(t2)}}
}

func c02Points() []*rm.Pt {
	return []*rm.Pt{
		{TS: 1 * sec, Dims: D("k", "A", "r", "A"), Vals: D("a", 1.0)},
		{TS: 2 * sec, Dims: D("k", "A", "r", "A"), Vals: D("a", 2.0)},
		{TS: 1 * sec, Dims: D("k", "B", "r", "A"), Vals: D("a", 4.0)},
		{TS: 1 * sec, Dims: D("k", "A", "r", "B"), Vals: D("a", 8.0)}, // filtered out of t2: offset-only path
	}
}

const c02NEvents = 7

func c02EventName(e int) string {
	switch {
	case e < 4:
		return fmt.Sprintf("Ins(p%d)", e)
	case e == 4:
		return "Flush(t1)"
	case e == 5:
		return "FlushAll"
	}
	return "Restart"
}

type c02Image struct {
	Point    string
	Hit      int
	Dir      string
	Acked    int  // inserts acknowledged when the image was taken
	InFlight bool // one more insert was being written
	Hash     string
	EventIdx int
}

// dirHash hashes a data directory with file names normalised (wall-clock based
// names replaced by their rank).
func dirHash(dir string) string {
	type ent struct{ rel, sum string }
	var ents []ent
	filepath.Walk(dir, func(path string, info os.FileInfo, err error) error {
		if err != nil || info.IsDir() {
			return nil
		}
		b, _ := os.ReadFile(path)
		s := sha256.Sum256(b)
		rel, _ := filepath.Rel(dir, path)
		ents = append(ents, ent{rel, hex.EncodeToString(s[:8])})
		return nil
	})
	sort.Slice(ents, func(i, j int) bool { return ents[i].rel < ents[j].rel })
	h := sha256.New()
	rank := map[string]int{}
	for _, e := range ents {
		d := filepath.Dir(e.rel)
		rank[d]++
		base := filepath.Base(e.rel)
		if base != "offset" {
			base = fmt.Sprintf("#%d", rank[d])
		}
		fmt.Fprintf(h, "%s/%s=%s;", d, base, e.sum)
	}
	return hex.EncodeToString(h.Sum(nil)[:10])
}

// dirShape lists the files of a directory tree by rank and size.
func dirShape(dir string) string {
	var parts []string
	newest, newestSize := "", int64(-1)
	filepath.Walk(dir, func(path string, info os.FileInfo, err error) error {
		if err != nil || info.IsDir() {
			return nil
		}
		rel, _ := filepath.Rel(dir, path)
		name := filepath.Base(rel)
		if strings.HasPrefix(name, "filestore_") {
			// superseded data files are removed by a background task at a moment of its own choosing: only the
			// newest one (names sort by creation time) belongs to the shape; its compressed size varies by a few
			// bytes with the wall-clock based offsets it embeds
			if rel > newest {
				newest, newestSize = rel, info.Size()
			}
			return nil
		}
		if name != "offset" {
			name = "#"
		}
		parts = append(parts, fmt.Sprintf("%s/%s:%d", filepath.Dir(rel), name, info.Size()))
		return nil
	})
	if newest != "" {
		_ = newestSize // compressed size: varies by a few bytes between processes, not part of the shape
		parts = append(parts, fmt.Sprintf("%s/filestore:present", filepath.Dir(newest)))
	}
	return strings.Join(parts, ";")
}

func copyTree(from, to string) error {
	return filepath.Walk(from, func(path string, info os.FileInfo, err error) error {
		if err != nil {
			return nil // a file renamed away under our feet: the listing we hold is from before
		}
		rel, _ := filepath.Rel(from, path)
		dst := filepath.Join(to, rel)
		if info.IsDir() {
			return os.MkdirAll(dst, 0755)
		}
		b, err := os.ReadFile(path)
		if err != nil {
			return nil
		}
		return os.WriteFile(dst, b, 0644)
	})
}

var c02CrashPoints = map[string]bool{
	"wal-write-before": true, "wal-write-after": true, "applied": true, "entry-done": true,
	"flush-start": true, "flush-written": true, "flush-synced": true, "flush-closed": true, "flush-renamed": true, "flush-swapped": true,
	"offsets-start": true, "offsets-written": true, "offsets-synced": true, "offsets-closed": true, "offsets-renamed": true,
	"remove-before": true, "remove-after": true,
}

// c02RunHistory executes the events on dir, taking an image at every crash
// point hit (or, with exitAt set, exiting the process at that hit). It returns
// the images and the list of inserts in order.
func c02RunHistory(c *fw.Ctx, dir string, events []int, startAcked int, imgBase string, exitPoint string, exitHit int) ([]*c02Image, []int, bool) {
	_, cfg := c02Tables()
	points := c02Points()
	var images []*c02Image
	var mx sync.Mutex
	var acked int32 = int32(startAcked)
	var inFlight int32
	hits := map[string]int{}
	seen := map[string]bool{}
	var curEvent int32
	hook := func(z *zenodb.DB, table, name string, _ wal.Offset) {
		if !c02CrashPoints[name] {
			return
		}
		mx.Lock()
		defer mx.Unlock()
		key := table + "|" + name
		hits[key]++
		if exitPoint != "" {
			if key == exitPoint && hits[key] == exitHit {
				os.Exit(0) // SIGKILL stand-in: no deferred functions, no flushing
			}
			return
		}
		if imgBase == "" {
			return
		}
		img := &c02Image{Point: key, Hit: hits[key], Acked: int(atomic.LoadInt32(&acked)), InFlight: atomic.LoadInt32(&inFlight) == 1, EventIdx: int(atomic.LoadInt32(&curEvent))}
		img.Dir = filepath.Join(imgBase, fmt.Sprintf("%s-%s-%d", table, name, img.Hit))
		copyTree(dir, img.Dir)
		img.Hash = fmt.Sprintf("%s|%d|%v", dirHash(img.Dir), img.Acked, img.InFlight)
		if seen[img.Hash] {
			os.RemoveAll(img.Dir)
			img.Dir = ""
		}
		seen[img.Hash] = true
		images = append(images, img)
	}
	dbdrv.SetPointHook(hook)
	defer dbdrv.SetPointHook(nil)
	zenodb.VerifTickerIntervals["remove-old-files"] = 2 * time.Millisecond
	db, err := dbdrv.Open(dir, cfg)
	if err != nil {
		if c != nil {
			c.Incomplete("open: " + err.Error())
		}
		return nil, nil, false
	}
	var inserted []int
	for i, e := range events {
		atomic.StoreInt32(&curEvent, int32(i))
		switch {
		case e < 4:
			atomic.StoreInt32(&inFlight, 1)
			err := db.InsertNoWait("s", toPoint(points[e]))
			if err == nil {
				atomic.AddInt32(&acked, 1)
				inserted = append(inserted, e)
			}
			atomic.StoreInt32(&inFlight, 0)
			if !db.Quiesce() {
				if c != nil {
					c.Incomplete("quiescence timeout")
				}
				db.Close()
				return nil, nil, false
			}
		case e == 4:
			db.Flush("t1")
		case e == 5:
			db.FlushAll()
		default:
			db.Close()
			if err := db.Restart(); err != nil {
				if c != nil {
					c.Incomplete("restart: " + err.Error())
				}
				return nil, nil, false
			}
		}
		// give the old-file remover a chance to act between events
		time.Sleep(5 * time.Millisecond)
	}
	atomic.StoreInt32(&curEvent, int32(len(events)))
	db.Close()
	return images, inserted, true
}

// tornVariants returns copies of the image in which the last WAL entry is cut
// to each length class.
func c02TornVariants(img string, base string) []struct {
	Dir  string
	Keep int
} {
	walDir := filepath.Join(img, "_wal", "s")
	files, _ := os.ReadDir(walDir)
	if len(files) == 0 {
		return nil
	}
	var names []string
	for _, f := range files {
		names = append(names, f.Name())
	}
	sort.Strings(names)
	last := filepath.Join(walDir, names[len(names)-1])
	b, _ := os.ReadFile(last)
	// find the start of the last complete entry
	pos, lastStart := 0, -1
	for pos+8 <= len(b) {
		l := int(binary.BigEndian.Uint32(b[pos:]))
		if l == 0 || pos+8+l > len(b) {
			break
		}
		lastStart = pos
		pos += 8 + l
	}
	if lastStart < 0 {
		return nil
	}
	entryLen := pos - lastStart
	var out []struct {
		Dir  string
		Keep int
	}
	for _, keep := range []int{1, 4, 7, 8, 8 + (entryLen-8)/2, entryLen - 1} {
		if keep <= 0 || keep >= entryLen {
			continue
		}
		dir := fmt.Sprintf("%s-torn%d", base, keep)
		copyTree(img, dir)
		os.WriteFile(filepath.Join(dir, "_wal", "s", names[len(names)-1]), b[:lastStart+keep], 0644)
		out = append(out, struct {
			Dir  string
			Keep int
		}{dir, keep})
	}
	return out
}

// c02Recover opens a DB on dir, lets it catch up and compares every table with
// the model of the first n inserts (and, if maybeOneMore, possibly the next).
func c02Recover(c *fw.Ctx, dir string, inserted []int, n int, maybeOneMore bool, torn bool) (string, string) {
	tables, cfg := c02Tables()
	points := c02Points()
	db, err := dbdrv.Open(dir, cfg)
	if err != nil {
		return "recovery-open-failed", err.Error()
	}
	defer db.Close()
	if !db.Quiesce() {
		return "", "quiescence timeout during recovery"
	}
	if torn {
		// the reader may still be deciding what to do with a torn tail: the acknowledged
		// entries before it are covered by exact quiescence; give the tail a moment
		time.Sleep(60 * time.Millisecond)
		db.Quiesce()
	}
	candidates := []int{n}
	if maybeOneMore && n < len(inserted) {
		candidates = append(candidates, n+1)
	}
	var lastDiff string
	for _, k := range candidates {
		model := rm.NewState(0, tables...)
		for _, e := range inserted[:k] {
			model.Insert("s", points[e])
		}
		ok := true
		for _, t := range tables {
			res, err := db.Query("SELECT * FROM "+t.Name, true)
			if err != nil {
				return "recovery-query-error", err.Error()
			}
			if diff := compareRows(res, model.NativeRows(t), fieldNames(t.AllFields()), -100*sec, 100*sec); diff != "" {
				ok = false
				lastDiff = fmt.Sprintf("table %s vs model of the first %d inserts:\n%s", t.Name, k, diff)
				break
			}
		}
		if ok {
			if len(db.Panics) > 0 {
				return "panic-during-recovery", fmt.Sprint(db.Panics)
			}
			return "", ""
		}
	}
	key := "acknowledged-insert-lost-or-doubled"
	if strings.Contains(lastDiff, "missing row") {
		key = "acknowledged-insert-lost"
	}
	return key, lastDiff
}

// start states: empty directory; both tables have a data file, and t2 (which filtered the last point out) also has an
// offset file that is ahead of its data file
func c02Starts() [][]int { return [][]int{nil, {0, 5, 3, 5}} }

func c02Run(c *fw.Ctx, cs c02Case, conformance bool) {
	if len(cs.Start) > 0 {
		cs.Events = append(append([]int{}, cs.Start...), cs.Events...)
		cs.Start = nil
	}
	base := newDir(c)
	defer removeDir(base)
	live := filepath.Join(base, "live")
	os.MkdirAll(live, 0755)
	images, inserted, ok := c02RunHistory(c, live, cs.Events, 0, filepath.Join(base, "img"), "", 0)
	if !ok {
		return
	}
	var names []string
	for _, e := range cs.Events {
		names = append(names, c02EventName(e))
	}
	desc := strings.Join(names, "; ")
	distinct := 0
	for _, img := range images {
		c.Count("crash_point_hits", 1)
		if img.Dir == "" {
			continue // identical to an image already recovered
		}
		if cs.Point != "" && (img.Point != cs.Point || img.Hit != cs.Hit) {
			continue
		}
		distinct++
		c.Nontrivial(desc + img.Hash)
		type variant struct {
			dir  string
			torn int
		}
		variants := []variant{{img.Dir, -1}}
		if strings.HasSuffix(img.Point, "|wal-write-after") {
			for _, tv := range c02TornVariants(img.Dir, img.Dir) {
				variants = append(variants, variant{tv.Dir, tv.Keep})
			}
		}
		for _, v := range variants {
			if cs.Point != "" && cs.Torn != 0 && cs.Torn != v.torn {
				continue
			}
			c.Eval(1)
			rec := v.dir + "-rec"
			copyTree(v.dir, rec)
			acked, maybe := img.Acked, img.InFlight
			if v.torn > 0 {
				// the entry being written is not acknowledged in the torn variants
				maybe = true
			}
			t0 := time.Now()
			key, msg := c02Recover(c, rec, inserted, acked, maybe, v.torn > 0)
			if os.Getenv("C02_DEBUG") != "" {
				fmt.Fprintf(os.Stderr, "recover %s hit %d torn %d acked %d maybe %v: %v key=%q msg=%q\n", img.Point, img.Hit, v.torn, acked, maybe, time.Since(t0), key, msg)
			}
			if key == "" && msg != "" {
				c.Incomplete(msg)
				continue
			}
			if key != "" {
				one := cs
				one.Point, one.Hit, one.Torn = img.Point, img.Hit, v.torn
				c.Violate("C02", key, fmt.Sprintf("history [%s], killed at %s (hit %d, during event %d, torn=%d), %d inserts acknowledged%s:\n%s", desc, img.Point, img.Hit, img.EventIdx, v.torn, acked, map[bool]string{true: " + 1 in flight", false: ""}[maybe], msg), one)
				continue
			}
			c.Outcome(fmt.Sprintf("%s|%d|%v", img.Point, acked, maybe))
			// second round: the recovered instance was closed cleanly (flush on Close); recover once more
			if c.Thorough() || cs.Round > 0 {
				key, msg = c02Recover(c, rec, inserted, acked, maybe, false)
				if key != "" {
					one := cs
					one.Point, one.Hit, one.Torn, one.Round = img.Point, img.Hit, v.torn, 1
					c.Violate("C02", key+"-second-round", fmt.Sprintf("history [%s], killed at %s (hit %d), recovered, closed, reopened:\n%s", desc, img.Point, img.Hit, msg), one)
				}
			}
			os.RemoveAll(rec)
		}
		if conformance && cs.Point == "" {
			// the image abstraction against a real process exit at the same hit
			childDir := filepath.Join(base, fmt.Sprintf("child-%s-%d", img.Point, img.Hit))
			os.MkdirAll(childDir, 0755)
			b, _ := json.Marshal(cs.Events)
			self, _ := os.Executable()
			cmd := exec.Command(self, "c02child", string(b), img.Point, fmt.Sprint(img.Hit), childDir)
			cmd.Env = os.Environ()
			if err := cmd.Run(); err == nil {
				// compare what the step's own table (and the WAL) look like: the other
				// table's actor runs concurrently and FlushAll visits tables in map order
				sub := strings.SplitN(img.Point, "|", 2)[0]
				// (file contents embed wall-clock based WAL offsets, so two processes
				// never produce identical bytes: compare names by rank and sizes)
				shapeOf := func(d string) string {
					sh := "wal[" + dirShape(filepath.Join(d, "_wal")) + "]"
					if sub != "s" {
						sh += " table[" + dirShape(filepath.Join(d, sub)) + "]"
					}
					return sh
				}
				childShape, imgShape := shapeOf(childDir), shapeOf(img.Dir)
				same := childShape == imgShape
				if !same {
					c.Count("conformance_images_differing", 1)
					c.Note(fmt.Sprintf("conformance: child killed at %s hit %d left a different directory than the image (table subtree and WAL compared by file rank and size): history %v child %s image %s", img.Point, img.Hit, cs.Events, childShape, imgShape))
				} else {
					c.Trace(1)
				}
			}
			os.RemoveAll(childDir)
		}
	}
	c.Count("distinct_images", int64(distinct))
	c.Transition(int64(len(cs.Events)))
	c.State(desc)
}

// C02ChildMain runs a history and exits inside the hook (used for conformance).
func C02ChildMain(args []string) {
	var events []int
	json.Unmarshal([]byte(args[0]), &events)
	hit := 0
	fmt.Sscanf(args[2], "%d", &hit)
	c02RunHistory(nil, args[3], events, 0, "", args[1], hit)
	os.Exit(3) // the point was never reached
}

func init() {
	fw.Register(&fw.Prop{
		ID:          "C02",
		Level:       "fault_enumeration",
		NoThreads:   true,
		Rule:        "all histories of the bound over {4 inserts (two keys, two periods, one filtered out of the second table: offset-only flush path), Flush(t1), FlushAll, clean Restart} on two tables of one stream, started from the empty directory and from a non-initial state (insert, FlushAll, filtered insert, FlushAll: data files exist and t2's offset file is ahead of its data file); at every hit of each of 17 instrumented steps (WAL write before/after, memstore applied, entry done, flush temp/written/synced/closed/renamed/swapped, offset file start/written/synced/closed/renamed, old-file removal before/after) the data directory is copied; every distinct image (by normalised content hash) plus 6 torn-tail length classes of the in-flight WAL entry is recovered with a fresh DB to exact quiescence and compared with the reference model of the acknowledged inserts (in-flight insert: 0 or 1 times); thorough recovers a second time after the clean close; quick also runs a real child process that exits inside the hook and compares its directory with the image; evaluations = recoveries, non-trivial = distinct images",
		Assumptions: []string{"process-kill model: the page cache survives, so no unsynced-block subsets", "kill instants inside the wal package other than the torn-tail classes are not represented", "images are taken while other table actors may still be running non-hooked code; every rename is atomic, so each image is a state that existed"},
		Shards: func(tier string) int {
			if tier == "thorough" {
				return 32 // short-lived workers: every closed zenodb instance leaves goroutines and buffers behind
			}
			return 16
		},
		Budget: func(tier string) time.Duration {
			if tier == "thorough" {
				return 50 * time.Minute
			}
			return 12 * time.Minute
		},
		Run: func(c *fw.Ctx) {
			n := 3
			if c.Thorough() {
				n = 4
			}
			total := ipow(c02NEvents, n)
			var idx int64
			for si := int64(0); si < total*int64(len(c02Starts())); si++ {
				i, start := si%total, c02Starts()[si/total]
				if len(start) > 0 && n > 3 {
					i = si % ipow(c02NEvents, 3) // from the non-initial state: length 3 in both tiers
					if si-total >= ipow(c02NEvents, 3) {
						break
					}
				}
				ev := seqFromIndex(i, c02NEvents, n)
				if len(start) > 0 {
					ev = seqFromIndex(i, c02NEvents, 3)
				}
				hasIns := false
				for _, e := range ev {
					if e < 4 {
						hasIns = true
					}
				}
				if !hasIns {
					continue
				}
				idx++
				if !c.Mine(idx) {
					continue
				}
				if c.Expired() {
					c.Incomplete("time budget used up")
					return
				}
				cs := c02Case{Start: start, Events: ev}
				var names []string
				for _, e := range append(append([]int{}, start...), ev...) {
					names = append(names, c02EventName(e))
				}
				c.Sample("history", names)
				c02Run(c, cs, !c.Thorough() && idx%8 == 0)
			}
			c.R.Bound = fmt.Sprintf("all histories of length %d with at least one insert from the empty directory, and of length 3 from a state in which both tables have a data file and t2's offset file is ahead of its data file", n)
		},
		Replay: func(c *fw.Ctx, raw json.RawMessage) {
			var cs c02Case
			if json.Unmarshal(raw, &cs) != nil {
				return
			}
			c02Run(c, cs, false)
		},
	})
}
