package props

import (
	"bytes"
	"encoding/json"
	"fmt"
	"math"
	"time"

	"github.com/getlantern/bytemap"
	"github.com/getlantern/zenodb/encoding"
	"github.com/getlantern/zenodb/expr"

	"verif/mc/fw"
)

// C05 — merge is a homomorphism; truncation is exact and pure. Pure
// functions: plain exhaustive enumeration against single-state accumulation
// (expression level) and a map[period]value reference (series level).

type c05Update struct {
	A float64 `json:"a"`
	Y bool    `json:"y"`
}

type c05ExprCase struct {
	Kind    string      `json:"kind"` // "expr"
	Depth   int         `json:"depth"`
	Index   int         `json:"index"`
	Desc    string      `json:"desc"`
	Updates []c05Update `json:"updates"`
	Assign  []int       `json:"assign"`
	Parts   int         `json:"parts"`
}

func c05Params(u c05Update) (expr.Params, bytemap.ByteMap) {
	return expr.Map{"a": u.A, "w": 2, "b": 0.5}, bytemap.New(map[string]interface{}{"y": u.Y})
}

func valEq(a, b float64) bool {
	if math.IsNaN(a) && math.IsNaN(b) {
		return true
	}
	if math.IsInf(a, 0) || math.IsInf(b, 0) {
		return a == b
	}
	if a == b {
		return true
	}
	return math.Abs(a-b) <= 1e-9*math.Max(math.Abs(a), math.Abs(b))
}

func c05Accumulate(e expr.Expr, ups []c05Update) []byte {
	b := make([]byte, e.EncodedWidth())
	for _, u := range ups {
		p, md := c05Params(u)
		e.Update(b, p, md)
	}
	return b
}

func c05Merge(e expr.Expr, x, y []byte) []byte {
	out := make([]byte, e.EncodedWidth())
	e.Merge(out, x, y)
	return out
}

// c05CheckExpr checks one (expression, update sequence, assignment).
func c05CheckExpr(e expr.Expr, ups []c05Update, assign []int, parts int) string {
	single := c05Accumulate(e, ups)
	want, wantSet, _ := e.Get(single)
	ps := make([][]c05Update, parts)
	for i, u := range ups {
		ps[assign[i]] = append(ps[assign[i]], u)
	}
	states := make([][]byte, parts)
	for i := range ps {
		states[i] = c05Accumulate(e, ps[i])
	}
	saved := make([][]byte, parts)
	for i := range states {
		saved[i] = append([]byte(nil), states[i]...)
	}
	check := func(label string, m []byte) string {
		got, gotSet, _ := e.Get(m)
		if gotSet != wantSet || (wantSet && !valEq(got, want)) {
			return fmt.Sprintf("%s: merged value %v (set=%v) != single-state value %v (set=%v)", label, got, gotSet, want, wantSet)
		}
		return ""
	}
	var msg string
	if parts == 2 {
		xy := c05Merge(e, states[0], states[1])
		yx := c05Merge(e, states[1], states[0])
		if msg = check("merge(x,y)", xy); msg != "" {
			return msg
		}
		if msg = check("merge(y,x)", yx); msg != "" {
			return msg
		}
	} else {
		l := c05Merge(e, c05Merge(e, states[0], states[1]), states[2])
		r := c05Merge(e, states[0], c05Merge(e, states[1], states[2]))
		p := c05Merge(e, c05Merge(e, states[2], states[0]), states[1])
		if msg = check("merge(merge(x,y),z)", l); msg != "" {
			return msg
		}
		if msg = check("merge(x,merge(y,z))", r); msg != "" {
			return msg
		}
		if msg = check("merge(merge(z,x),y)", p); msg != "" {
			return msg
		}
	}
	for i := range states {
		if !bytes.Equal(states[i], saved[i]) {
			return fmt.Sprintf("operand %d was modified by Merge", i)
		}
	}
	return ""
}

var c05Values = []float64{-1, 0, 2, 5}

func c05UpdateAlphabet() []c05Update {
	var out []c05Update
	for _, v := range c05Values {
		out = append(out, c05Update{v, true}, c05Update{v, false})
	}
	return out
}

func c05RunExprs(c *fw.Ctx) {
	depth, maxLen := 2, 3
	if c.Thorough() {
		depth, maxLen = 3, 3
	}
	exprs := genExprs(depth)
	alpha := c05UpdateAlphabet()
	for ei, g := range exprs {
		if !c.Mine(int64(ei)) {
			continue
		}
		if c.Expired() {
			c.Incomplete("time budget used up in expression enumeration")
			return
		}
		c.Sample("expr", map[string]interface{}{"expr": g.Desc, "string": g.E.String(), "width": g.E.EncodedWidth()})
		isPtile := g.E.EncodedWidth() > 200
		ml := maxLen
		if isPtile && !c.Thorough() {
			ml = 2
		}
		nontrivial := false
		for n := 1; n <= ml; n++ {
			total := ipow(len(alpha), n)
			for si := int64(0); si < total; si++ {
				seq := seqFromIndex(si, len(alpha), n)
				ups := make([]c05Update, n)
				for i, s := range seq {
					ups[i] = alpha[s]
				}
				for parts := 2; parts <= 3; parts++ {
					na := ipow(parts, n)
					for ai := int64(0); ai < na; ai++ {
						assign := seqFromIndex(ai, parts, n)
						c.Eval(1)
						if msg := c05CheckExpr(g.E, ups, assign, parts); msg != "" {
							c.Violate("C05", "expr-merge:"+exprKind(g.Desc), fmt.Sprintf("%s: updates %v assign %v: %s", g.Desc, ups, assign, msg),
								c05ExprCase{"expr", depth, ei, g.Desc, ups, assign, parts})
						}
						if n >= 2 {
							nontrivial = true
						}
					}
				}
			}
		}
		if nontrivial {
			c.Nontrivial("expr:" + g.Desc)
		}
		c.Outcome("expr:" + g.Desc)
	}
}

func exprKind(desc string) string {
	if len(desc) > 40 {
		return desc[:40]
	}
	return desc
}

// ---------------------------------------------------------------------------
// series level

const c05W = 6 // window of periods

type c05SeriesCase struct {
	Kind  string `json:"kind"` // merge | truncate | update
	Expr  string `json:"expr"`
	MaskA int    `json:"mask_a"`
	MaskB int    `json:"mask_b"`
	TB    int64  `json:"tb"` // truncateBefore / asOf (ns rel. to base; <0 = zero time)
	Until int64  `json:"until"`
	Order []int  `json:"order,omitempty"`
}

var c05Base = time.Date(2020, 1, 1, 0, 0, 0, 0, time.UTC)

func c05SeriesExprs() []genExpr {
	return []genExpr{
		{expr.SUM(expr.FIELD("a")), "SUM"},
		{expr.AVG(expr.FIELD("a")), "AVG"},
		{expr.MIN(expr.FIELD("a")), "MIN"},
	}
}

// period i (1..W) ends at base + i seconds. buildSeries builds a sequence from
// a presence mask directly (bytes + expr.Update on the slots), values given by
// val(i).
func buildSeries(e expr.Expr, mask int, val func(i int) float64) encoding.Sequence {
	hi, lo := 0, 0
	for i := 1; i <= c05W; i++ {
		if mask&(1<<(i-1)) != 0 {
			if lo == 0 {
				lo = i
			}
			hi = i
		}
	}
	if hi == 0 {
		return nil
	}
	w := e.EncodedWidth()
	seq := encoding.NewSequence(w, hi-lo+1)
	seq.SetUntil(c05Base.Add(time.Duration(hi) * time.Second))
	for i := lo; i <= hi; i++ {
		if mask&(1<<(i-1)) != 0 {
			seq.UpdateValueAt(hi-i, e, expr.Map{"a": val(i)}, nil)
		}
	}
	return seq
}

// decode returns period index -> value for the set periods of a sequence.
func decodeSeries(e expr.Expr, seq encoding.Sequence) (map[int]float64, string) {
	out := map[int]float64{}
	if len(seq) == 0 {
		return out, ""
	}
	w := e.EncodedWidth()
	if (len(seq)-8)%w != 0 {
		return nil, fmt.Sprintf("sequence length %d is not 8 + k*%d", len(seq), w)
	}
	until := seq.Until().Sub(c05Base)
	if until%time.Second != 0 {
		return nil, fmt.Sprintf("sequence until %v not aligned", seq.Until())
	}
	hi := int(until / time.Second)
	for p := 0; p < seq.NumPeriods(w); p++ {
		v, ok := seq.ValueAt(p, e)
		if ok {
			out[hi-p] = v
		}
	}
	return out, ""
}

func c05Instant(ns int64) time.Time {
	if ns < 0 {
		return time.Time{}
	}
	return c05Base.Add(time.Duration(ns))
}

// instant grid: zero time, every boundary 0..W+1 s and every mid-period
func c05Grid() []int64 {
	g := []int64{-1}
	for i := 0; i <= c05W+1; i++ {
		g = append(g, int64(i)*sec)
		g = append(g, int64(i)*sec+sec/2)
	}
	return g
}

func c05CheckMerge(g genExpr, ma, mb int, tb int64) string {
	e := g.E
	va := func(i int) float64 { return float64(10 + i) }
	vb := func(i int) float64 { return float64(100 + 3*i) }
	a := buildSeries(e, ma, va)
	b := buildSeries(e, mb, vb)
	sa, sb := append(encoding.Sequence(nil), a...), append(encoding.Sequence(nil), b...)
	out := a.Merge(b, e, time.Second, c05Instant(tb))
	if !bytes.Equal(a, sa) || !bytes.Equal(b, sb) {
		return "Merge modified an operand"
	}
	got, msg := decodeSeries(e, out)
	if msg != "" {
		return msg
	}
	for i := 1; i <= c05W; i++ {
		end := int64(i) * sec
		if tb >= 0 && end < tb {
			continue // expired: unconstrained
		}
		inA, inB := ma&(1<<(i-1)) != 0, mb&(1<<(i-1)) != 0
		var want float64
		switch {
		case inA && inB:
			switch g.Desc {
			case "SUM":
				want = va(i) + vb(i)
			case "AVG":
				want = (va(i) + vb(i)) / 2
			case "MIN":
				want = math.Min(va(i), vb(i))
			}
		case inA:
			want = va(i)
		case inB:
			want = vb(i)
		}
		gv, ok := got[i]
		if ok != (inA || inB) {
			return fmt.Sprintf("period %d: present=%v, want %v", i, ok, inA || inB)
		}
		if ok && !valEq(gv, want) {
			return fmt.Sprintf("period %d: got %v want %v", i, gv, want)
		}
	}
	for i := range got {
		if i < 1 || i > c05W {
			return fmt.Sprintf("period %d outside both operands is set", i)
		}
	}
	return ""
}

func c05CheckTruncate(g genExpr, ma int, asOf, until int64) string {
	e := g.E
	va := func(i int) float64 { return float64(10 + i) }
	a := buildSeries(e, ma, va)
	sa := append(encoding.Sequence(nil), a...)
	out := a.Truncate(e.EncodedWidth(), time.Second, c05Instant(asOf), c05Instant(until))
	if !bytes.Equal(a, sa) {
		return "Truncate modified the original series"
	}
	got, msg := decodeSeries(e, out)
	if msg != "" {
		return msg
	}
	for i := 1; i <= c05W; i++ {
		end := int64(i) * sec
		keep := ma&(1<<(i-1)) != 0 && (asOf < 0 || end > asOf) && (until < 0 || end <= until)
		gv, ok := got[i]
		if ok != keep {
			return fmt.Sprintf("period %d (end %ds): present=%v, want %v", i, i, ok, keep)
		}
		if ok && !valEq(gv, va(i)) {
			return fmt.Sprintf("period %d: value %v, want %v", i, gv, va(i))
		}
	}
	// the result must not extend outside (asOf, until] even with unset periods
	if len(out) > 0 {
		w := e.EncodedWidth()
		hi := int64(out.Until().Sub(c05Base))
		lo := hi - int64(out.NumPeriods(w)-1)*sec
		if until >= 0 && hi > until {
			return fmt.Sprintf("result extends to %v beyond until %v", time.Duration(hi), time.Duration(until))
		}
		if asOf >= 0 && lo <= asOf && out.NumPeriods(w) > 0 {
			return fmt.Sprintf("result starts at period ending %v, not after asOf %v", time.Duration(lo), time.Duration(asOf))
		}
	}
	return ""
}

// c05CheckUpdate inserts points at the given period order through
// UpdateValue (timestamps mid-period and on the boundary alternately).
func c05CheckUpdate(g genExpr, order []int, tb int64) string {
	e := g.E
	var seq encoding.Sequence
	type pt struct {
		ts  int64
		val float64
	}
	var pts []pt
	maxEnd := int64(0)
	for k, i := range order {
		ts := int64(i) * sec
		if k%2 == 0 {
			ts -= sec / 2
		}
		v := float64(1 + k)
		pts = append(pts, pt{ts, v})
		prev := append(encoding.Sequence(nil), seq...)
		_ = prev
		seq = seq.UpdateValue(c05Base.Add(time.Duration(ts)), expr.Map{"a": v}, nil, e, time.Second, c05Instant(tb))
		if int64(i)*sec > maxEnd {
			maxEnd = int64(i) * sec
		}
	}
	got, msg := decodeSeries(e, seq)
	if msg != "" {
		return msg
	}
	// reference: periods not older than truncateBefore hold exactly their
	// points; a point older than truncateBefore when applied is dropped; a
	// period at or after truncateBefore is never lost.
	want := map[int][]float64{}
	for _, p := range pts {
		end := (p.ts + sec - 1) / sec
		want[int(end)] = append(want[int(end)], p.val)
	}
	for i := 1; i <= c05W; i++ {
		end := int64(i) * sec
		if tb >= 0 && end <= tbRoundUp(tb) {
			// expired, or straddling truncateBefore (UpdateValue rounds the bound up
			// to a period boundary; the property does not speak to that period)
			continue
		}
		vs := want[i]
		gv, ok := got[i]
		if ok != (len(vs) > 0) {
			return fmt.Sprintf("period %d: present=%v want %v (order %v)", i, ok, len(vs) > 0, order)
		}
		if !ok {
			continue
		}
		var w float64
		switch g.Desc {
		case "SUM":
			for _, v := range vs {
				w += v
			}
		case "AVG":
			for _, v := range vs {
				w += v
			}
			w /= float64(len(vs))
		case "MIN":
			w = vs[0]
			for _, v := range vs {
				w = math.Min(w, v)
			}
		}
		if !valEq(gv, w) {
			return fmt.Sprintf("period %d: got %v want %v", i, gv, w)
		}
	}
	return ""
}

func tbRoundUp(tb int64) int64 { return (tb + sec - 1) / sec * sec }

func c05RunSeries(c *fw.Ctx) {
	grid := c05Grid()
	var idx int64
	for _, g := range c05SeriesExprs() {
		// Merge: all pairs of non-empty masks × truncateBefore grid
		for ma := 1; ma < 1<<c05W; ma++ {
			idx++
			if !c.Mine(idx) {
				continue
			}
			if c.Expired() {
				c.Incomplete("time budget used up in series enumeration")
				return
			}
			for mb := 1; mb < 1<<c05W; mb++ {
				for _, tb := range grid {
					c.Eval(1)
					if msg := c05CheckMerge(g, ma, mb, tb); msg != "" {
						c.Violate("C05", "series-merge", fmt.Sprintf("%s Merge masks %06b/%06b truncateBefore=%v: %s", g.Desc, ma, mb, time.Duration(tb), msg),
							c05SeriesCase{Kind: "merge", Expr: g.Desc, MaskA: ma, MaskB: mb, TB: tb})
					}
				}
				if ma&mb != 0 && ma != mb {
					c.Nontrivial(fmt.Sprintf("merge:%s:%d:%d", g.Desc, ma, mb))
				}
			}
			// Truncate: this mask × all (asOf, until) pairs
			for _, asOf := range grid {
				for _, until := range grid {
					c.Eval(1)
					if msg := c05CheckTruncate(g, ma, asOf, until); msg != "" {
						key := "series-truncate"
						if msg == "Truncate modified the original series" {
							key = "series-truncate-mutates"
						}
						c.Violate("C05", key, fmt.Sprintf("%s Truncate mask %06b asOf=%v until=%v: %s", g.Desc, ma, time.Duration(asOf), time.Duration(until), msg),
							c05SeriesCase{Kind: "truncate", Expr: g.Desc, MaskA: ma, TB: asOf, Until: until})
					}
				}
			}
			c.Outcome(fmt.Sprintf("series:%s:%d", g.Desc, ma))
		}
		c.Sample("series-merge", map[string]interface{}{"expr": g.Desc, "mask_a": "101101", "mask_b": "011010", "truncateBefore": "2.5s", "window_periods": c05W})
		// UpdateValue: all insertion orders of <= 4 points over the window × truncateBefore grid
		maxPts := 3
		if c.Thorough() {
			maxPts = 4
		}
		for n := 1; n <= maxPts; n++ {
			total := ipow(c05W, n)
			for si := int64(0); si < total; si++ {
				idx++
				if !c.Mine(idx) {
					continue
				}
				order := seqFromIndex(si, c05W, n)
				for i := range order {
					order[i]++
				}
				for _, tb := range grid {
					c.Eval(1)
					if msg := c05CheckUpdate(g, order, tb); msg != "" {
						c.Violate("C05", "series-update", fmt.Sprintf("%s UpdateValue order %v truncateBefore=%v: %s", g.Desc, order, time.Duration(tb), msg),
							c05SeriesCase{Kind: "update", Expr: g.Desc, Order: order, TB: tb})
					}
				}
				if n >= 2 {
					c.Nontrivial(fmt.Sprintf("update:%s:%v", g.Desc, order))
				}
			}
		}
	}
}

func init() {
	fw.Register(&fw.Prop{
		ID:    "C05",
		Level: "exploration",
		Rule: "expression level: every Validate()-passing tree up to the depth bound over {SUM,MIN,MAX,COUNT,AVG,WAVG (plain and BOUNDED), PERCENTILE, CONST} × {12 binary ops, IF, SHIFT, LN/LOG2/LOG10} × all update sequences of length <=3 over values {-1,0,2,5}×{y} × all assignments to 2 and 3 parts: merged value == single-state value, commutative, associative, operands byte-identical; " +
			"series level (window of 6 periods): Merge over all 63×63 presence masks × 17 truncateBefore instants, Truncate over all 63 masks × 17×17 (asOf, until), UpdateValue over all insertion orders of <=3/4 points × 17 truncateBefore, against a map[period]value reference; non-trivial = expression with >=2 updates split across parts / overlapping unequal masks / multi-point orders",
		Assumptions: []string{"HDR histogram arithmetic of PERCENTILE is trusted (compared against single-state accumulation in the same package)", "expired periods (older than truncateBefore) are unconstrained"},
		Shards:      func(tier string) int { return 16 },
		Par:         16,
		Budget: func(tier string) time.Duration {
			if tier == "thorough" {
				return 30 * time.Minute
			}
			return 3 * time.Minute
		},
		Run: func(c *fw.Ctx) {
			c05RunExprs(c)
			c05RunSeries(c)
			c.R.Bound = "expr depth<=2 (quick) / <=3 with reduced inner set (thorough), updates<=3, parts 2 and 3; series window 6"
		},
		Replay: func(c *fw.Ctx, raw json.RawMessage) {
			var k struct {
				Kind string `json:"kind"`
			}
			json.Unmarshal(raw, &k)
			if k.Kind == "expr" {
				var cs c05ExprCase
				json.Unmarshal(raw, &cs)
				exprs := genExprs(cs.Depth)
				if cs.Index >= len(exprs) {
					return
				}
				g := exprs[cs.Index]
				if msg := c05CheckExpr(g.E, cs.Updates, cs.Assign, cs.Parts); msg != "" {
					c.Violate("C05", "expr-merge:"+exprKind(g.Desc), msg, cs)
				}
				return
			}
			var cs c05SeriesCase
			json.Unmarshal(raw, &cs)
			var g genExpr
			for _, x := range c05SeriesExprs() {
				if x.Desc == cs.Expr {
					g = x
				}
			}
			var msg string
			switch cs.Kind {
			case "merge":
				msg = c05CheckMerge(g, cs.MaskA, cs.MaskB, cs.TB)
			case "truncate":
				msg = c05CheckTruncate(g, cs.MaskA, cs.TB, cs.Until)
			case "update":
				msg = c05CheckUpdate(g, cs.Order, cs.TB)
			}
			if msg != "" {
				c.Violate("C05", "series-"+cs.Kind, msg, cs)
			}
		},
	})
}
