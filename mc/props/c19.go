package props

import (
	"context"
	"encoding/json"
	"fmt"
	"io"
	"net/http"
	"net/http/httptest"
	"net/url"
	"os"
	"strings"
	"sync"
	"time"

	"github.com/getlantern/bytemap"
	"github.com/getlantern/zenodb"
	"github.com/getlantern/zenodb/common"
	"github.com/getlantern/zenodb/core"
	"github.com/getlantern/zenodb/rpc"
	"github.com/getlantern/zenodb/web"
	"github.com/gorilla/mux"
	"github.com/gorilla/securecookie"

	"verif/mc/dbdrv"
	"verif/mc/fw"
)

// C19 — data-disclosing endpoints refuse callers without valid credentials.
// The request lattice is finite and enumerated completely.

type c19Case struct {
	Kind string `json:"kind"` // rpc | web | idp-session | idp-callback
	// identity-provider answers (idp kinds): token exchange, org check of the first and of the second request
	Token    string `json:"token,omitempty"`
	Org1     string `json:"org1,omitempty"`
	Org2     string `json:"org2,omitempty"`
	ServerPw bool   `json:"server_password"`
	Cred     string `json:"credential"`
	Endpoint string `json:"endpoint"`
	OAuth    bool   `json:"oauth,omitempty"`
}

const c19Password = "s3cret"

func c19Creds() map[string]string {
	return map[string]string{"none": "", "wrong": "nope", "right": c19Password, "prefix": "s3cre", "longer": c19Password + "x"}
}

// ---- RPC ---------------------------------------------------------------------

type c19RPCEnv struct {
	standalone *dbdrv.DB
	leader     *zenodb.DB
	leaderDir  string
	addrS      string
	addrL      string
	stops      []func()
}

func c19StartRPC(c *fw.Ctx, serverPw bool) *c19RPCEnv {
	env := &c19RPCEnv{}
	def := c13Table()
	def.PartitionBy = nil
	db, err := dbdrv.Open(newDir(c), dbdrv.Config{Tables: []dbdrv.TableDef{def}})
	if err != nil {
		c.Incomplete("open: " + err.Error())
		return nil
	}
	for _, p := range c13Points()[:4] {
		db.Insert("s", p)
	}
	env.standalone = db
	pw := ""
	if serverPw {
		pw = c19Password
	}
	env.addrS, _, err = func() (string, func(), error) {
		a, stop, err := startRPC(db.Z, 0, pw)
		if err == nil {
			env.stops = append(env.stops, stop)
		}
		return a, stop, err
	}()
	if err != nil {
		c.Incomplete("listen: " + err.Error())
		return nil
	}
	// a leader with some WAL entries and no followers
	env.leaderDir = newDir(c)
	lz, err := zenodb.NewDB(&zenodb.DBOpts{Dir: env.leaderDir, VirtualTime: true, Passthrough: true, NumPartitions: 1, ClusterQueryConcurrency: 4, ClusterQueryTimeout: 300 * time.Millisecond, Panic: func(interface{}) {}})
	if err != nil {
		c.Incomplete("leader: " + err.Error())
		return nil
	}
	tdef := c13Table()
	if err := lz.ApplySchema(zenodb.Schema{tdef.Name: &zenodb.TableOpts{Name: tdef.Name, SQL: tdef.SQL, RetentionPeriod: tdef.Retention, PartitionBy: tdef.PartitionBy}}); err != nil {
		c.Incomplete("leader schema: " + err.Error())
		return nil
	}
	for _, p := range c13Points()[:4] {
		lz.Insert("s", p.Time(), p.Dims, p.Vals)
	}
	env.leader = lz
	a, stop, err := startRPC(lz, 1, pw)
	if err != nil {
		c.Incomplete("listen: " + err.Error())
		return nil
	}
	env.addrL = a
	env.stops = append(env.stops, stop)
	return env
}

func (e *c19RPCEnv) close() {
	for _, s := range e.stops {
		s()
	}
	if e.standalone != nil {
		e.standalone.Close()
	}
	if e.leader != nil {
		e.leader.Close()
	}
}

func c19CheckRPC(c *fw.Ctx, env *c19RPCEnv, cs c19Case) {
	c.Eval(1)
	cred := c19Creds()[cs.Cred]
	mustRefuse := cs.ServerPw && cs.Cred != "right"
	desc := fmt.Sprintf("rpc %s, server password set=%v, client credential %q", cs.Endpoint, cs.ServerPw, cs.Cred)
	disclosed := ""
	switch cs.Endpoint {
	case "query":
		cl, err := dialRPC(env.addrS, cred)
		if err != nil {
			c.Incomplete("dial: " + err.Error())
			return
		}
		defer cl.Close()
		ctx, cancel := context.WithTimeout(context.Background(), 5*time.Second)
		defer cancel()
		_, iterate, err := cl.Query(ctx, "SELECT * FROM t13", true)
		rows := 0
		if err == nil {
			_, err = iterate(func(row *core.FlatRow) (bool, error) { rows++; return true, nil })
		}
		if rows > 0 {
			disclosed = fmt.Sprintf("%d rows", rows)
		}
		if !mustRefuse && rows == 0 {
			c.Violate("C19", "rpc-refuses-valid-caller", fmt.Sprintf("%s: no rows, err=%v", desc, err), cs)
			return
		}
		// the same call built by hand: whatever the (client-supplied) flags of the query message say, the
		// credentials decide
		if rows == 0 || !mustRefuse {
			cc, derr := dialRawRPC(env.addrS)
			if derr != nil {
				c.Incomplete("raw dial: " + derr.Error())
				return
			}
			defer cc.Close()
			for flags := 0; flags < 16; flags++ {
				q := &rpc.Query{SQLString: "SELECT * FROM t13", IncludeMemStore: flags&1 != 0, IsSubQuery: flags&2 != 0, Unflat: flags&4 != 0}
				if flags&8 != 0 {
					q.HasDeadline, q.Deadline = true, time.Now().Add(5*time.Second)
				}
				c.Eval(1)
				md, n, qerr := rawRPCQuery(cc, c19Creds()[cs.Cred], q)
				if mustRefuse && (md || n > 0) {
					c.Violate("C19", "rpc-discloses-data-without-password", fmt.Sprintf("%s, hand-built query message %+v: metadata received=%v, %d rows (err=%v)", desc, *q, md, n, qerr), cs)
					return
				}
				if !mustRefuse && flags&7 == 1 && n == 0 {
					c.Violate("C19", "rpc-refuses-valid-caller", fmt.Sprintf("%s, hand-built query message %+v: no rows, err=%v", desc, *q, qerr), cs)
					return
				}
			}
		}
	case "follow":
		cl, err := dialRPC(env.addrL, cred)
		if err != nil {
			c.Incomplete("dial: " + err.Error())
			return
		}
		defer cl.Close()
		ctx, cancel := context.WithTimeout(context.Background(), 2*time.Second)
		defer cancel()
		f := &common.Follow{Stream: "s", FollowerID: common.FollowerID{Partition: 0, ID: 7},
			Partitions: map[string]*common.Partition{"x": {Keys: []string{"x"}, Tables: []*common.PartitionTable{{Name: "t13", Offsets: common.OffsetsBySource{}}}}}}
		got := 0
		_, next, err := cl.Follow(ctx, f)
		if err == nil {
			for got < 1 {
				data, _, nerr := next()
				if nerr != nil {
					break
				}
				if len(data) > 0 {
					got++
				}
			}
		}
		if got > 0 {
			disclosed = fmt.Sprintf("%d WAL entries", got)
		}
		if !mustRefuse && got == 0 {
			c.Violate("C19", "rpc-refuses-valid-caller", fmt.Sprintf("%s: no entries, err=%v", desc, err), cs)
			return
		}
	case "remote-query":
		cl, err := dialRPC(env.addrL, cred)
		if err != nil {
			c.Incomplete("dial: " + err.Error())
			return
		}
		defer cl.Close()
		var mx sync.Mutex
		sawSQL := ""
		done := make(chan error, 1)
		go func() {
			done <- cl.ProcessRemoteQuery(context.Background(), 0, func(ctx context.Context, sqlString string, isSubQuery bool, subQueryResults [][]interface{}, unflat bool, onFields core.OnFields, onRow core.OnRow, onFlatRow core.OnFlatRow) (interface{}, error) {
				mx.Lock()
				sawSQL = sqlString
				mx.Unlock()
				// try to inject a forged row
				onFields(core.Fields{core.PointsField})
				if onFlatRow != nil {
					onFlatRow(&core.FlatRow{TS: dbdrv.Epoch.Add(time.Second).UnixNano(), Key: bytemap.New(map[string]interface{}{"x": 666}), Values: []float64{666}})
				}
				return &common.QueryStats{NumPartitions: 1, NumSuccessfulPartitions: 1}, nil
			}, 1500*time.Millisecond)
		}()
		// give the registration time to arrive, then issue a leader query
		time.Sleep(150 * time.Millisecond)
		res, qerr := dbdrv.QueryZ(env.leader, context.Background(), "SELECT * FROM t13", true, nil)
		select {
		case <-done:
		case <-time.After(3 * time.Second):
		}
		mx.Lock()
		saw := sawSQL
		mx.Unlock()
		injected := false
		if res != nil {
			for _, r := range res.Rows {
				if r.Key["x"] == 666 {
					injected = true
				}
			}
		}
		if saw != "" {
			disclosed = "query text " + saw
		}
		if injected {
			disclosed += " + injected a forged row into the leader's result"
		}
		if !mustRefuse && saw == "" {
			c.Violate("C19", "rpc-refuses-valid-caller", fmt.Sprintf("%s: registered handler never received the query (leader err=%v)", desc, qerr), cs)
			return
		}
		// consume any handler left registered so that it does not leak into the next case
		zenodb.VerifDrainQueryHandlers(env.leader, 0)
	}
	if mustRefuse && disclosed != "" {
		c.Violate("C19", "rpc-"+cs.Endpoint+"-without-password", fmt.Sprintf("%s: obtained %s", desc, disclosed), cs)
		return
	}
	if mustRefuse {
		c.Nontrivial(desc)
	}
	c.Outcome(fmt.Sprintf("%s|%v|%v", cs.Endpoint, mustRefuse, disclosed != ""))
}

// ---- Web ---------------------------------------------------------------------

var (
	c19HashKey  = strings.Repeat("h", 64)
	c19BlockKey = strings.Repeat("b", 32)
)

type c19WebEnv struct {
	db        *dbdrv.DB
	srv       *httptest.Server
	close     func()
	dir       string
	permalink string
}

func c19StartWeb(c *fw.Ctx, oauth, pw bool) *c19WebEnv {
	c19InstallProvider()
	c19IdP.set("neterr", "neterr")
	def := c13Table()
	def.PartitionBy = nil
	db, err := dbdrv.Open(newDir(c), dbdrv.Config{Tables: []dbdrv.TableDef{def}})
	if err != nil {
		c.Incomplete("open: " + err.Error())
		return nil
	}
	for _, p := range c13Points()[:4] {
		db.Insert("s", p)
	}
	db.FlushAll()
	env := &c19WebEnv{db: db, dir: newDir(c)}
	opts := &web.Opts{CacheDir: env.dir, HashKey: c19HashKey, BlockKey: c19BlockKey}
	if oauth {
		opts.OAuthClientID, opts.OAuthClientSecret, opts.GitHubOrg = "client", "secret", "org"
	}
	if pw {
		opts.Password = c19Password
	}
	router := mux.NewRouter()
	env.close, err = web.Configure(db.Z, router, opts)
	if err != nil {
		c.Incomplete("web.Configure: " + err.Error())
		db.Close()
		return nil
	}
	env.srv = httptest.NewServer(router)
	return env
}

func (e *c19WebEnv) stop() {
	e.srv.Close()
	e.close()
	e.db.Close()
	os.RemoveAll(e.dir)
}

func c19Cookie(kind string) string {
	good := securecookie.New([]byte(c19HashKey), []byte(c19BlockKey))
	other := securecookie.New([]byte(strings.Repeat("x", 64)), []byte(strings.Repeat("y", 32)))
	enc := func(sc *securecookie.SecureCookie, exp time.Time) string {
		v, _ := sc.Encode("authcookie", &web.AuthData{AccessToken: "token", Expiration: exp})
		return v
	}
	switch kind {
	case "cookie-forged":
		return enc(other, time.Now().Add(time.Hour))
	case "cookie-garbage":
		return "not-a-cookie"
	case "cookie-future":
		return enc(good, time.Now().Add(time.Hour))
	case "cookie-expired-1s":
		return enc(good, time.Now().Add(-time.Second))
	case "cookie-expired-long":
		return enc(good, time.Now().Add(-30*24*time.Hour))
	}
	return ""
}

var c19WebCreds = []string{"none", "token-right", "token-wrong", "cookie-forged", "cookie-garbage", "cookie-future", "cookie-expired-1s", "cookie-expired-long"}

func (e *c19WebEnv) request(path string, cred string) (int, int) {
	u := e.srv.URL + path
	req, _ := http.NewRequest("GET", u, nil)
	req.Header.Set("Cache-control", "no-cache")
	switch {
	case cred == "token-right":
		req.Header.Set("X-Zeno-Auth-Token", c19Password)
	case cred == "token-wrong":
		req.Header.Set("X-Zeno-Auth-Token", "nope")
	case strings.HasPrefix(cred, "cookie-"):
		req.AddCookie(&http.Cookie{Name: "authcookie", Value: c19Cookie(cred)})
	}
	resp, err := c19Client.Do(req)
	if err != nil {
		return -1, 0
	}
	defer resp.Body.Close()
	rows := 0
	if resp.StatusCode == 200 {
		var qr web.QueryResult
		if json.NewDecoder(resp.Body).Decode(&qr) == nil {
			rows = len(qr.Rows)
			if e.permalink == "" {
				e.permalink = qr.Permalink
			}
		}
	}
	return resp.StatusCode, rows
}

// c19Client talks to the httptest server over a transport of its own: http.DefaultTransport is the identity provider.
var c19Client = &http.Client{Timeout: 30 * time.Second, Transport: &http.Transport{},
	CheckRedirect: func(req *http.Request, via []*http.Request) error { return http.ErrUseLastResponse }}

// ---- the identity provider as an environment whose answers the harness chooses ------------------------------
//
// web.handler calls github.com (token exchange) and api.github.com (org membership) through an http.Client without
// a transport, i.e. through http.DefaultTransport. The harness replaces it by a provider that gives the answer the
// current case prescribes, so that every combination of provider answers is explored - offline, deterministically.

type c19Provider struct {
	mx         sync.Mutex
	token, org string
	calls      int
}

var c19IdP = &c19Provider{token: "neterr", org: "neterr"}
var c19IdPOnce sync.Once

func c19InstallProvider() {
	c19IdPOnce.Do(func() { http.DefaultTransport = c19IdP })
}

var c19TokenAnswers = []string{"ok", "neterr", "500", "garbage", "empty"}
var c19OrgAnswers = []string{"member", "nonmember", "neterr", "401", "403", "500", "garbage", "empty"}

func (p *c19Provider) set(token, org string) {
	p.mx.Lock()
	p.token, p.org = token, org
	p.mx.Unlock()
}

func (p *c19Provider) RoundTrip(req *http.Request) (*http.Response, error) {
	p.mx.Lock()
	token, org := p.token, p.org
	p.calls++
	p.mx.Unlock()
	answer := func(code int, body string) (*http.Response, error) {
		return &http.Response{StatusCode: code, Status: fmt.Sprint(code), Proto: "HTTP/1.1", ProtoMajor: 1, ProtoMinor: 1,
			Header: http.Header{"Content-Type": []string{"application/json"}}, Body: io.NopCloser(strings.NewReader(body)), Request: req}, nil
	}
	which := org
	if strings.Contains(req.URL.Host, "github.com") && strings.Contains(req.URL.Path, "access_token") {
		which = token
	} else if !strings.Contains(req.URL.Host, "api.github.com") {
		return nil, fmt.Errorf("no route to %s (sandbox)", req.URL.Host)
	} else if a := req.Header.Get("Authorization"); a != "token tok" && a != "token token" && (which == "member" || which == "nonmember" || which == "empty") {
		// the provider knows two access tokens: the one its token exchange hands out and the one inside the
		// harness's session cookies; it cannot vouch for any other (for instance an empty one)
		return answer(401, `{"message":"Bad credentials"}`)
	}
	switch which {
	case "ok":
		return answer(200, `{"access_token":"tok","token_type":"bearer"}`)
	case "member":
		return answer(200, `[{"login":"other"},{"login":"org"}]`)
	case "nonmember":
		return answer(200, `[{"login":"other"}]`)
	case "empty":
		if which == token && strings.Contains(req.URL.Path, "access_token") {
			return answer(200, `{}`)
		}
		return answer(200, `[]`)
	case "garbage":
		return answer(200, `<html>rate limited</html>`)
	case "401":
		return answer(401, `{"message":"Bad credentials"}`)
	case "403":
		return answer(403, `{"message":"API rate limit exceeded"}`)
	case "500":
		return answer(500, `oops`)
	}
	return nil, fmt.Errorf("connection refused (provider answer %q)", which)
}

// c19Get issues one GET with the given cookies and returns status, rows and the cookies the response sets.
func (e *c19WebEnv) c19Get(path string, cookies []*http.Cookie) (int, int, []*http.Cookie, string) {
	req, _ := http.NewRequest("GET", e.srv.URL+path, nil)
	req.Header.Set("Cache-control", "no-cache")
	for _, ck := range cookies {
		req.AddCookie(&http.Cookie{Name: ck.Name, Value: ck.Value})
	}
	resp, err := c19Client.Do(req)
	if err != nil {
		return -1, 0, nil, ""
	}
	defer resp.Body.Close()
	rows := 0
	if resp.StatusCode == 200 {
		var qr web.QueryResult
		if json.NewDecoder(resp.Body).Decode(&qr) == nil {
			rows = len(qr.Rows)
		}
	}
	return resp.StatusCode, rows, resp.Cookies(), resp.Header.Get("Location")
}

func c19SessionCookie(cookies []*http.Cookie) []*http.Cookie {
	for _, ck := range cookies {
		if ck.Name == "authcookie" {
			return []*http.Cookie{ck}
		}
	}
	return nil
}

// c19CheckProvider: sessions are honoured only when the provider verified org membership.
func c19CheckProvider(c *fw.Ctx, env *c19WebEnv, cs c19Case) {
	c.Eval(1)
	q := "/immediate?" + url.PathEscape("SELECT * FROM t13")
	served := func(status, rows int) bool { return (status == 200 && rows > 0) || status == 202 }
	switch cs.Kind {
	case "idp-session":
		// an expired, well-signed session: re-verified with the provider on every request
		c19IdP.set("neterr", cs.Org1)
		expired := []*http.Cookie{{Name: "authcookie", Value: c19Cookie("cookie-expired-long")}}
		st1, rows1, set1, _ := env.c19Get(q, expired)
		desc := fmt.Sprintf("web /immediate, OAuth configured, static password set=%v, expired session cookie, provider's org check answers %q", cs.ServerPw, cs.Org1)
		if served(st1, rows1) && cs.Org1 != "member" {
			c.Violate("C19", "web-accepts-expired-session-cookie", fmt.Sprintf("%s: HTTP %d with %d rows", desc, st1, rows1), cs)
			return
		}
		if !served(st1, rows1) && cs.Org1 == "member" {
			c.Violate("C19", "web-refuses-valid-caller", fmt.Sprintf("%s: HTTP %d (an expired session of a verified member is renewed)", desc, st1), cs)
			return
		}
		// the browser comes back with whatever session cookie the first response set
		next := c19SessionCookie(set1)
		if next == nil {
			next = expired
		}
		c19IdP.set("neterr", cs.Org2)
		st2, rows2, _, _ := env.c19Get(q, next)
		if served(st2, rows2) && cs.Org1 != "member" && cs.Org2 != "member" {
			c.Violate("C19", "web-honours-session-that-was-never-verified", fmt.Sprintf("%s; the response (HTTP %d) set a session cookie: %v; second request with it while the org check answers %q: HTTP %d with %d rows", desc, st1, c19SessionCookie(set1) != nil, cs.Org2, st2, rows2), cs)
			return
		}
		if cs.Org1 != "member" {
			c.Nontrivial(fmt.Sprint(cs))
		}
		c.Outcome(fmt.Sprintf("session|%v|%v|%d|%d", cs.Org1 == "member", cs.Org2 == "member", st1, st2))
	case "idp-callback":
		// the OAuth callback: obtain a valid state the way a browser does, then present a code
		c19IdP.set("neterr", "neterr")
		_, _, _, loc := env.c19Get(q, nil)
		u, err := url.Parse(loc)
		if err != nil || u.Query().Get("state") == "" {
			c.Incomplete("no authorization redirect with a state parameter: " + loc)
			return
		}
		c19IdP.set(cs.Token, cs.Org1)
		st1, _, set1, _ := env.c19Get("/oauth/code?code=thecode&state="+url.QueryEscape(u.Query().Get("state")), nil)
		sess := c19SessionCookie(set1)
		// afterwards the provider verifies nobody: only a session issued by the callback can open the door
		c19IdP.set("neterr", "nonmember")
		st2, rows2, _, _ := env.c19Get(q, sess)
		verified := cs.Token == "ok" && cs.Org1 == "member"
		desc := fmt.Sprintf("web /oauth/code with a valid state, static password set=%v, provider answers: token exchange %q, org check %q", cs.ServerPw, cs.Token, cs.Org1)
		if served(st2, rows2) && !verified {
			c.Violate("C19", "web-issues-session-without-verification", fmt.Sprintf("%s: callback answered HTTP %d and set a session cookie: %v; a query with it is served (HTTP %d, %d rows)", desc, st1, sess != nil, st2, rows2), cs)
			return
		}
		if !served(st2, rows2) && verified {
			c.Violate("C19", "web-refuses-valid-caller", fmt.Sprintf("%s: session cookie set: %v; query HTTP %d", desc, sess != nil, st2), cs)
			return
		}
		if !verified {
			c.Nontrivial(fmt.Sprint(cs))
		}
		c.Outcome(fmt.Sprintf("callback|%v|%v|%d", verified, sess != nil, st2))
	}
}

func c19CheckWeb(c *fw.Ctx, env *c19WebEnv, cs c19Case) {
	c.Eval(1)
	path := cs.Endpoint + "?" + url.PathEscape("SELECT * FROM t13")
	if cs.Endpoint == "/cached" {
		if env.permalink == "" {
			// produce a cached result with an authorised request first
			auth := "token-right"
			if !cs.ServerPw {
				auth = "none"
			}
			env.request("/immediate?"+url.PathEscape("SELECT * FROM t13"), auth)
		}
		if env.permalink == "" {
			c.Count("cached_endpoint_without_permalink_skipped", 1)
			return
		}
		path = "/cached/" + env.permalink
	}
	status, rows := env.request(path, cs.Cred)
	desc := fmt.Sprintf("web %s, OAuth configured=%v, static password set=%v, credential %s", cs.Endpoint, cs.OAuth, cs.ServerPw, cs.Cred)
	mayServe := !cs.OAuth ||
		(cs.Cred == "token-right" && cs.ServerPw) ||
		cs.Cred == "cookie-future" // a well-signed unexpired session was verified when it was issued
	// 202 = accepted, result pending under /cached/…: the request was admitted
	served := (status == 200 && rows > 0) || status == 202
	if served && !mayServe {
		key := "web-serves-data-without-valid-credentials"
		if strings.HasPrefix(cs.Cred, "cookie-expired") {
			key = "web-accepts-expired-session-cookie"
		}
		c.Violate("C19", key, fmt.Sprintf("%s: HTTP %d with %d rows", desc, status, rows), cs)
		return
	}
	mustServe := !cs.OAuth || (cs.Cred == "token-right" && cs.ServerPw)
	if mustServe && !served {
		c.Violate("C19", "web-refuses-valid-caller", fmt.Sprintf("%s: HTTP %d with %d rows", desc, status, rows), cs)
		return
	}
	if !mayServe {
		c.Nontrivial(desc)
	}
	c.Outcome(fmt.Sprintf("%s|%s|%d", cs.Endpoint, cs.Cred, status))
}

func init() {
	fw.Register(&fw.Prop{
		ID:          "C19",
		Level:       "exploration",
		NoThreads:   true,
		Rule:        "the whole request lattice. RPC over real gRPC on 127.0.0.1: server password {unset, set} × client credential {none, wrong, right, proper prefix, right + 1 char} × endpoint {Query (rows; also as hand-built messages with every combination of the client-supplied flags IncludeMemStore, IsSubQuery, Unflat, HasDeadline), Follow (WAL entries), remote-query handler registration followed by a leader query (query text; forged row injection)}; web via web.Configure on httptest with known hash/block keys: OAuth {unset, set} × static password {unset, set} × credential {none, right token, wrong token, cookie signed with other keys, garbage cookie, well-signed cookie expiring in 1 h, expired 1 s ago, expired 30 days ago} × endpoint {/immediate, /async, /cached/{permalink} of an authorised result}; the identity provider (github.com token exchange, api.github.com org check) is an environment whose answers the harness prescribes through http.DefaultTransport: expired well-signed session × org answer {member, non-member, connection error, 401, 403, 500, garbage, empty list} × a second request carrying whatever session cookie the first response set × org answer {member, non-member, error}; OAuth callback with a valid state × token answer {token, connection error, 500, garbage, no token} × the 8 org answers, then a query with the session cookie the callback set; oracle: with a password / OAuth configured only the right password / right token / unexpired well-signed session obtains data, and valid callers are served; non-trivial = request that must be refused",
		Assumptions: []string{"the provider is reached through http.DefaultTransport (web.handler's http.Client has no transport of its own)", "a session counts as verified only if the provider confirmed org membership when it was issued or renewed", "a well-signed unexpired session cookie counts as verified (it is only issued after verification)"},
		Shards:      func(tier string) int { return 4 },
		Budget:      func(tier string) time.Duration { return 15 * time.Minute },
		Run: func(c *fw.Ctx) {
			var idx int64
			for _, pw := range []bool{false, true} {
				idx++
				if !c.Mine(idx) {
					continue
				}
				env := c19StartRPC(c, pw)
				if env == nil {
					continue
				}
				for _, ep := range []string{"query", "follow", "remote-query"} {
					for _, cred := range []string{"none", "wrong", "right", "prefix", "longer"} {
						cs := c19Case{Kind: "rpc", ServerPw: pw, Cred: cred, Endpoint: ep}
						c.Sample("rpc", cs)
						c19CheckRPC(c, env, cs)
					}
				}
				env.close()
			}
			for _, oauth := range []bool{false, true} {
				for _, pw := range []bool{false, true} {
					idx++
					if !c.Mine(idx) {
						continue
					}
					env := c19StartWeb(c, oauth, pw)
					if env == nil {
						continue
					}
					for _, ep := range []string{"/immediate", "/cached", "/async"} {
						for _, cred := range c19WebCreds {
							if ep == "/async" && !(cred == "none" || cred == "token-right" || cred == "cookie-expired-1s") {
								continue // the web coalescer makes every /async request wait 5 s
							}
							cs := c19Case{Kind: "web", OAuth: oauth, ServerPw: pw, Cred: cred, Endpoint: ep}
							c.Sample("web", cs)
							c19CheckWeb(c, env, cs)
						}
					}
					if oauth {
						for _, o1 := range c19OrgAnswers {
							for _, o2 := range []string{"member", "nonmember", "neterr"} {
								cs := c19Case{Kind: "idp-session", OAuth: true, ServerPw: pw, Org1: o1, Org2: o2}
								c.Sample("idp-session", cs)
								c19CheckProvider(c, env, cs)
							}
						}
						for _, t := range c19TokenAnswers {
							for _, o := range c19OrgAnswers {
								cs := c19Case{Kind: "idp-callback", OAuth: true, ServerPw: pw, Token: t, Org1: o}
								c.Sample("idp-callback", cs)
								c19CheckProvider(c, env, cs)
							}
						}
					}
					env.stop()
				}
			}
			c.R.Bound = "complete lattice"
		},
		Replay: func(c *fw.Ctx, raw json.RawMessage) {
			var cs c19Case
			if json.Unmarshal(raw, &cs) != nil {
				return
			}
			if cs.Kind == "rpc" {
				env := c19StartRPC(c, cs.ServerPw)
				if env == nil {
					return
				}
				defer env.close()
				c19CheckRPC(c, env, cs)
				return
			}
			env := c19StartWeb(c, cs.OAuth, cs.ServerPw)
			if env == nil {
				return
			}
			defer env.stop()
			if strings.HasPrefix(cs.Kind, "idp-") {
				c19CheckProvider(c, env, cs)
				return
			}
			c19CheckWeb(c, env, cs)
		},
	})
}
