package cluster

import (
	"os"
	"testing"
	"time"

	"verif/mc/dbdrv"
)

func TestClusterSmoke(t *testing.T) {
	base, _ := os.MkdirTemp(os.Getenv("VERIF_SCRATCH"), "cl")
	defer os.RemoveAll(base)
	cfg := Config{NumPartitions: 2, Leaders: 1, Redundancy: 1, Tables: []dbdrv.TableDef{
		{Name: "ta", Stream: "s", Retention: 100 * time.Second, PartitionBy: []string{"x"}, SQL: "SELECT a, COUNT(a) AS ca FROM s GROUP BY x, y, period(1s)"},
	}}
	start := time.Now()
	c, err := Start(base, cfg)
	if err != nil {
		t.Fatal(err)
	}
	t.Logf("start %v", time.Since(start))
	for i := 0; i < 6; i++ {
		start = time.Now()
		err := c.Insert(0, "s", dbdrv.Point{TS: int64(1+i%2) * int64(time.Second), Dims: map[string]interface{}{"x": i % 3, "y": "a"}, Vals: map[string]interface{}{"a": float64(i + 1)}})
		if err != nil {
			t.Fatal(err)
		}
		ok := c.Quiesce()
		t.Logf("insert+quiesce %v ok=%v", time.Since(start), ok)
	}
	c.SetClock(dbdrv.Epoch.Add(3 * time.Second))
	for _, f := range c.Followers {
		r, err := f.Query("SELECT * FROM ta", true)
		t.Logf("follower %d.%d err=%v\n%v", f.Partition, f.ID, err, r)
	}
	start = time.Now()
	r, err := c.QueryLeader(0, "SELECT * FROM ta", true)
	t.Logf("leader query %v err=%v\n%v stats=%+v", time.Since(start), err, r, r.Stats)
	r, err = c.QueryLeader(0, "SELECT a FROM ta GROUP BY y", true)
	t.Logf("leader grouped err=%v\n%v", err, r)
	start = time.Now()
	c.Close()
	t.Logf("close %v", time.Since(start))
}
