// Package cluster wires real zenodb.DB instances into an in-process
// leader/follower cluster using only the public seams (DBOpts.Follow,
// DB.Follow, DBOpts.RegisterRemoteQueryHandler, DB.RegisterQueryHandler). The
// leader→follower links are owned by the harness: delivery of the next entry to
// a follower, cutting and reconnecting a link are explicit events.
package cluster

import (
	"context"
	"errors"
	"fmt"
	"os"
	"path/filepath"
	"sort"
	"strings"
	"sync"
	"time"

	"github.com/getlantern/wal"
	"github.com/getlantern/zenodb"
	"github.com/getlantern/zenodb/common"
	"github.com/getlantern/zenodb/core"
	"github.com/getlantern/zenodb/planner"

	"verif/mc/dbdrv"
)

func init() {
	zenodb.VerifTimerScale = 20 * time.Millisecond
	zenodb.VerifNapDuration = 500 * time.Microsecond
	dbdrv.AddPointHook(pointHook)
}

// pending[leader DB][follower id] lists the links whose Follow call has been
// issued but whose join the leader has not processed yet; current[...] is the
// link the leader currently submits to for that follower id. Both are updated
// from the leader's single processFollowers goroutine via the hook, in the
// order in which that goroutine handles joins and routes entries.
var (
	hookMx  sync.Mutex
	pending = map[*zenodb.DB]map[string][]*link{}
	current = map[*zenodb.DB]map[string]*link{}
	joining = map[*zenodb.DB][]*link{}
)

func pointHook(db *zenodb.DB, table, name string, offset wal.Offset) {
	switch name {
	case "follower-joined":
		hookMx.Lock()
		q := pending[db][table]
		if len(q) > 0 {
			lk := q[0]
			pending[db][table] = q[1:]
			if current[db] == nil {
				current[db] = map[string]*link{}
			}
			current[db][table] = lk
			joining[db] = append(joining[db], lk)
		}
		hookMx.Unlock()
	case "follower-joined-done":
		// only now has the leader restarted its WAL reader for the new set of
		// followers (and the routing position been reset)
		hookMx.Lock()
		done := joining[db]
		joining[db] = nil
		hookMx.Unlock()
		for _, lk := range done {
			lk.mx.Lock()
			lk.joined = true
			lk.mx.Unlock()
		}
	case "follow-submit":
		hookMx.Lock()
		lk := current[db][table]
		hookMx.Unlock()
		if lk != nil {
			lk.mx.Lock()
			lk.submitted++
			lk.mx.Unlock()
		}
	}
}

func forget(db *zenodb.DB) {
	hookMx.Lock()
	delete(pending, db)
	delete(current, db)
	delete(joining, db)
	hookMx.Unlock()
	zenodb.VerifForget(db)
}

var errCut = errors.New("link cut by harness")

// Config describes a cluster.
type Config struct {
	Tables        []dbdrv.TableDef
	NumPartitions int
	Leaders       int // 1 or 2
	Redundancy    int // followers per partition (1 or 2)
	QueryTimeout  time.Duration
	// ManualHandlers: followers do not register query handlers with the leaders;
	// the check registers exactly the handlers it wants (Follower.RealQuery).
	ManualHandlers bool
}

type entry struct {
	data   []byte
	offset wal.Offset
}

// link is one leader→follower connection (one call to leader.Follow).
type link struct {
	mx        sync.Mutex
	cond      *sync.Cond
	queue     int  // entries the leader has handed to the callback and that wait at the gate
	allowed   int  // how many entries the harness has let through so far
	passed    int  // how many went through
	cut       bool // return an error from the callback at the next opportunity
	dead      bool // the callback has returned an error; leader will drop the follower
	eager     bool // deliver without waiting for the harness
	delivered int
	received  int // callback invocations (entries the leader's follower goroutine handed over)
	submitted int // entries the leader submitted to this link's follower object (from the hook)
	joined    bool
	desc      string // the follow request this link was opened with (debugging)
}

// Follower is one follower node.
type Follower struct {
	followCalls int // invocations of DBOpts.Follow on the current instance
	c         *Cluster
	Partition int
	ID        int
	Dir       string
	Z         *zenodb.DB
	Panics    []string
	mx        sync.Mutex
	ff        func(sources []int) map[int]*common.Follow
	insert    func(data []byte, newOffset wal.Offset, source int) error
	follows   map[int]*common.Follow // per leader, kept across reconnects like server.followSource does
	links     map[int]*link          // current link per leader
	ffReady   chan struct{}
	stopReg   chan struct{}
	Up        bool
	// RealQuery is the follower's own remote-query function (as handed to RegisterRemoteQueryHandler).
	RealQuery planner.QueryClusterFN
	regs      map[*zenodb.DB]int // handler registrations completed, per leader instance
	uses      map[*zenodb.DB]int // handlers consumed by queries, per leader instance
}

// Leader is one passthrough node.
type Leader struct {
	c      *Cluster
	ID     int
	Dir    string
	Z      *zenodb.DB
	Panics []string
	joins  int // Follow calls issued by the harness against this instance
	mx     sync.Mutex
	gen    chan struct{} // closed when this leader instance is replaced
	// up is closed once the current instance has its schema (and so its streams); a real leader starts serving RPC
	// only after it has loaded its schema, so nobody may join or register with an instance before that
	up chan struct{}
}

// current returns the leader's database once it is ready to be joined.
func (l *Leader) current() (*zenodb.DB, chan struct{}) {
	for {
		l.mx.Lock()
		z, gen, up := l.Z, l.gen, l.up
		l.mx.Unlock()
		select {
		case <-up:
			return z, gen
		case <-time.After(30 * time.Second):
			return z, gen
		}
	}
}

// Cluster is a running in-process cluster.
type Cluster struct {
	Cfg       Config
	Base      string
	Now       time.Time
	Leaders   []*Leader
	Followers []*Follower
	Timeout   time.Duration
	TimedOut  bool
	Eager     bool // deliver entries to followers as soon as the leader produces them
}

func (c *Cluster) schema() zenodb.Schema {
	s := zenodb.Schema{}
	for _, t := range c.Cfg.Tables {
		s[t.Name] = &zenodb.TableOpts{Name: t.Name, View: t.View, SQL: t.SQL, RetentionPeriod: t.Retention,
			PartitionBy: append([]string(nil), t.PartitionBy...), MinFlushLatency: time.Hour}
	}
	return s
}

// AddTable adds a table to the schema of every node while the cluster runs (the way a schema file change is picked up).
// On a follower that is already following, the new table subscribes late: zenodb cancels the follow session and calls
// DBOpts.Follow again; AddTable returns once that has happened on every follower that is up.
func (c *Cluster) AddTable(t dbdrv.TableDef) error {
	c.Cfg.Tables = append(c.Cfg.Tables, t)
	for _, l := range c.Leaders {
		if err := l.Z.ApplySchema(c.schema()); err != nil {
			return err
		}
	}
	for _, f := range c.Followers {
		if !f.Up {
			continue
		}
		f.mx.Lock()
		before := f.followCalls
		f.mx.Unlock()
		if err := f.Z.ApplySchema(c.schema()); err != nil {
			return err
		}
		deadline := time.Now().Add(c.Timeout)
		for {
			f.mx.Lock()
			n := f.followCalls
			f.mx.Unlock()
			if n > before {
				break
			}
			if time.Now().After(deadline) {
				return fmt.Errorf("follower %d.%d did not restart its follow session after the table was added", f.Partition, f.ID)
			}
			time.Sleep(200 * time.Microsecond)
		}
	}
	return nil
}

// Start brings up leaders and followers on fresh directories under base.
func Start(base string, cfg Config) (*Cluster, error) {
	dbdrv.RelieveDescriptors()
	if cfg.Leaders == 0 {
		cfg.Leaders = 1
	}
	if cfg.Redundancy == 0 {
		cfg.Redundancy = 1
	}
	if cfg.QueryTimeout == 0 {
		cfg.QueryTimeout = 20 * time.Second
	}
	c := &Cluster{Cfg: cfg, Base: base, Now: dbdrv.Epoch, Timeout: 30 * time.Second, Eager: true}
	for l := 0; l < cfg.Leaders; l++ {
		ld := &Leader{c: c, ID: l, Dir: filepath.Join(base, fmt.Sprintf("leader%d", l))}
		c.Leaders = append(c.Leaders, ld)
		if err := ld.open(); err != nil {
			return nil, err
		}
	}
	for p := 0; p < cfg.NumPartitions; p++ {
		for r := 0; r < cfg.Redundancy; r++ {
			f := &Follower{c: c, Partition: p, ID: r, Dir: filepath.Join(base, fmt.Sprintf("follower%d_%d", p, r))}
			c.Followers = append(c.Followers, f)
			if err := f.Open(); err != nil {
				return nil, err
			}
		}
	}
	return c, nil
}

func (l *Leader) open() error {
	opts := &zenodb.DBOpts{
		Dir: l.Dir, VirtualTime: true, Passthrough: true, ID: l.ID, NumPartitions: l.c.Cfg.NumPartitions,
		ClusterQueryConcurrency: 8, ClusterQueryTimeout: l.c.Cfg.QueryTimeout,
		IterationCoalesceInterval: time.Millisecond,
		Panic: func(v interface{}) { l.Panics = append(l.Panics, fmt.Sprint(v)) },
	}
	z, err := zenodb.NewDB(opts)
	if err != nil {
		return err
	}
	zenodb.VerifAdvanceClock(z, l.c.Now)
	err = z.ApplySchema(l.c.schema())
	l.mx.Lock()
	l.Z = z
	l.gen = make(chan struct{})
	l.joins = 0
	if l.up == nil {
		l.up = make(chan struct{})
	}
	close(l.up)
	l.mx.Unlock()
	return err
}

// Restart closes and reopens the leader on its directory. Followers that
// were connected see their links fail and must be reconnected by the harness.
func (l *Leader) Restart() error {
	l.mx.Lock()
	close(l.gen)
	l.up = make(chan struct{}) // not joinable until the new instance has its schema
	l.mx.Unlock()
	l.Z.Close()
	forget(l.Z)
	for _, f := range l.c.Followers {
		f.mx.Lock()
		if lk := f.links[l.ID]; lk != nil {
			lk.mx.Lock()
			lk.dead = true
			lk.cond.Broadcast()
			lk.mx.Unlock()
		}
		f.mx.Unlock()
	}
	return l.open()
}

// Open starts the follower's database on its directory (fresh or existing).
func (f *Follower) Open() error {
	f.ffReady = make(chan struct{})
	f.stopReg = make(chan struct{})
	f.links = map[int]*link{}
	f.follows = nil
	f.ff, f.insert = nil, nil
	f.mx.Lock()
	f.regs = map[*zenodb.DB]int{}
	f.uses = map[*zenodb.DB]int{}
	f.mx.Unlock()
	ready := f.ffReady
	var once sync.Once
	opts := &zenodb.DBOpts{
		Dir: f.Dir, VirtualTime: true, ID: f.ID, NumPartitions: f.c.Cfg.NumPartitions, Partition: f.Partition,
		IterationCoalesceInterval: time.Millisecond,
		Panic: func(v interface{}) { f.mx.Lock(); f.Panics = append(f.Panics, fmt.Sprint(v)); f.mx.Unlock() },
		Follow: func(ff func(sources []int) map[int]*common.Follow, insert func(data []byte, newOffset wal.Offset, source int) error) {
			// zenodb calls this again whenever another table of the stream starts
			// following later than the (scaled) start-up timers allow for: the old
			// session is cancelled and a new one, feeding all tables so far, begins.
			// Like server.follow, every call starts a fresh set of links.
			f.mx.Lock()
			again := f.ff != nil
			f.ff, f.insert = ff, insert
			f.follows = nil
			f.followCalls++
			f.mx.Unlock()
			if again {
				for _, l := range f.c.Leaders {
					f.Cut(l.ID)
					f.connect(l, false)
				}
				return
			}
			once.Do(func() { close(ready) })
		},
		RegisterRemoteQueryHandler: func(db *zenodb.DB, partition int, realQuery planner.QueryClusterFN) {
			stop := f.stopReg
			f.mx.Lock()
			f.RealQuery = realQuery
			f.mx.Unlock()
			if f.c.Cfg.ManualHandlers {
				return
			}
			// A handler registered by an instance that has since gone away behaves
			// like the dead connection it would be in a real deployment: the leader
			// gets a retriable error (rpc server: "Unable to send query") and moves on
			// to the next registered handler.
			query := func(z *zenodb.DB) planner.QueryClusterFN {
				return func(ctx context.Context, sqlString string, isSubQuery bool, subQueryResults [][]interface{}, unflat bool, onFields core.OnFields, onRow core.OnRow, onFlatRow core.OnFlatRow) (interface{}, error) {
					select {
					case <-stop:
						return nil, common.MarkRetriable(errors.New("handler of a follower instance that is gone"))
					default:
					}
					f.mx.Lock()
					f.uses[z]++
					f.mx.Unlock()
					return realQuery(ctx, sqlString, isSubQuery, subQueryResults, unflat, onFields, onRow, onFlatRow)
				}
			}
			for _, l := range f.c.Leaders {
				l := l
				go func() {
					for {
						select {
						case <-stop:
							return
						default:
						}
						// one registration serves one query; RegisterQueryHandler blocks while the leader's buffer is full
						l.c.registerHandler(f, l, partition, query, stop)
					}
				}()
			}
		},
	}
	z, err := zenodb.NewDB(opts)
	if err != nil {
		return err
	}
	f.Z = z
	zenodb.VerifAdvanceClock(z, f.c.Now)
	if err := z.ApplySchema(f.c.schema()); err != nil {
		return err
	}
	select {
	case <-ready:
	case <-time.After(f.c.Timeout):
		f.c.TimedOut = true
		return fmt.Errorf("follower %d.%d never asked to follow", f.Partition, f.ID)
	}
	f.Up = true
	for _, l := range f.c.Leaders {
		f.connect(l, true)
	}
	return nil
}

// registerHandler registers one query handler with the leader that is current
// at the time of the call (leaders can be restarted).
func (c *Cluster) registerHandler(f *Follower, l *Leader, partition int, query func(z *zenodb.DB) planner.QueryClusterFN, stop chan struct{}) {
	z, gen := l.current()
	done := make(chan struct{})
	go func() {
		defer func() { recover(); close(done) }()
		z.RegisterQueryHandler(partition, query(z))
		select {
		case <-stop:
		default:
			f.mx.Lock()
			f.regs[z]++
			f.mx.Unlock()
		}
	}()
	select {
	case <-done:
	case <-stop:
	case <-gen: // the leader was restarted: register with the new instance
	}
	// avoid spinning if the buffer has room for many registrations
	time.Sleep(200 * time.Microsecond)
}

// connect issues leader.Follow for this follower, the way server.followSource
// does: the first time with what the follower computed from its stored
// offsets, later with the same table offsets and EarliestOffset advanced to the
// last entry that was successfully inserted.
func (f *Follower) connect(l *Leader, first bool) {
	f.mx.Lock()
	if f.follows == nil {
		sources := make([]int, 0, len(f.c.Leaders))
		for _, ld := range f.c.Leaders {
			sources = append(sources, ld.ID)
		}
		f.follows = f.ff(sources)
	}
	fol := f.follows[l.ID]
	lk := &link{eager: f.c.Eager}
	lk.cond = sync.NewCond(&lk.mx)
	f.links[l.ID] = lk
	insert := f.insert
	f.mx.Unlock()
	if fol == nil {
		return
	}
	z, _ := l.current()
	l.mx.Lock()
	l.joins++
	l.mx.Unlock()
	fid := fmt.Sprintf("%d.%d", f.Partition, f.ID)
	// One join of a follower at a time: DB.Follow hands the join to the leader's follower-processing goroutine from a
	// goroutine of its own, so two joins of the same follower issued back to back (cut and reconnect before any entry
	// flows, a restarted follow session) could reach the leader in either order - the leader would then keep the
	// older subscription and the accounting below would attribute its traffic to the wrong link. A real follower
	// re-joins only after its previous stream has ended.
	waitUntil := time.Now().Add(30 * time.Second)
	for {
		hookMx.Lock()
		if pending[z] == nil {
			pending[z] = map[string][]*link{}
		}
		if len(pending[z][fid]) == 0 || time.Now().After(waitUntil) {
			pending[z][fid] = append(pending[z][fid], lk)
			hookMx.Unlock()
			break
		}
		hookMx.Unlock()
		time.Sleep(100 * time.Microsecond)
	}
	cp := *fol // leader copies it anyway
	var ds []string
	for _, p := range cp.Partitions {
		for _, t := range p.Tables {
			ds = append(ds, fmt.Sprintf("%v/%s@%v", p.Keys, t.Name, t.Offsets))
		}
	}
	lk.mx.Lock()
	lk.desc = fmt.Sprintf("earliest=%v %v", cp.EarliestOffset, ds)
	lk.mx.Unlock()
	go z.Follow(&cp, func(data []byte, offset wal.Offset) error {
		lk.mx.Lock()
		lk.queue++
		lk.received++
		lk.cond.Broadcast()
		for !lk.cut && !lk.dead && !lk.eager && lk.passed >= lk.allowed {
			lk.cond.Wait()
		}
		if lk.cut || lk.dead {
			lk.dead = true
			lk.queue--
			lk.cond.Broadcast()
			lk.mx.Unlock()
			return errCut
		}
		lk.passed++
		lk.mx.Unlock()
		err := insert(append([]byte(nil), data...), offset, l.ID)
		lk.mx.Lock()
		lk.queue--
		if err == nil {
			lk.delivered++
			f.mx.Lock()
			fol.EarliestOffset = offset
			f.mx.Unlock()
		} else {
			lk.dead = true
		}
		lk.cond.Broadcast()
		lk.mx.Unlock()
		return err
	})
}

// Cut makes the follower's link to the leader fail at the next entry (or right
// away if one is waiting at the gate).
func (f *Follower) Cut(leader int) {
	f.mx.Lock()
	lk := f.links[leader]
	f.mx.Unlock()
	if lk == nil {
		return
	}
	lk.mx.Lock()
	lk.cut = true
	lk.cond.Broadcast()
	lk.mx.Unlock()
}

// IsCut tells whether the link to the leader is cut or dead.
func (f *Follower) IsCut(leader int) bool {
	f.mx.Lock()
	lk := f.links[leader]
	f.mx.Unlock()
	if lk == nil {
		return true
	}
	lk.mx.Lock()
	defer lk.mx.Unlock()
	return lk.cut || lk.dead
}

// Reconnect re-establishes the link to the leader.
func (f *Follower) Reconnect(leader int) {
	f.connect(f.c.Leaders[leader], false)
}

// Deliver lets n more entries through a gated (non-eager) link.
func (f *Follower) Deliver(leader, n int) {
	f.mx.Lock()
	lk := f.links[leader]
	f.mx.Unlock()
	if lk == nil {
		return
	}
	lk.mx.Lock()
	lk.allowed += n
	lk.cond.Broadcast()
	lk.mx.Unlock()
}

// SetEager switches a link between gated and eager delivery.
func (f *Follower) SetEager(leader int, eager bool) {
	f.mx.Lock()
	lk := f.links[leader]
	f.mx.Unlock()
	if lk == nil {
		return
	}
	lk.mx.Lock()
	lk.eager = eager
	lk.cond.Broadcast()
	lk.mx.Unlock()
}

// Stop closes the follower cleanly.
func (f *Follower) Stop() {
	if !f.Up {
		return
	}
	f.Up = false
	close(f.stopReg)
	for id := range f.links {
		f.Cut(id)
	}
	f.Z.Close()
	zenodb.VerifForget(f.Z)
}

// Snapshot copies the follower's data directory (a crash image: flushed files
// are renamed into place atomically and the follower has no WAL of its own).
func (f *Follower) Snapshot(to string) error {
	return copyDir(f.Dir, to)
}

// CrashRestartFrom stops the follower without letting it flush (its state is
// discarded) and restarts it on the given directory image.
func (f *Follower) CrashRestartFrom(image string) error {
	// The old instance is abandoned, not closed cleanly: closing would flush into
	// the old directory, which we are about to replace, so let it flush there and
	// then overwrite the directory with the image.
	f.Stop()
	os.RemoveAll(f.Dir)
	if err := copyDir(image, f.Dir); err != nil {
		return err
	}
	return f.Open()
}

func copyDir(from, to string) error {
	return filepath.Walk(from, func(path string, info os.FileInfo, err error) error {
		if err != nil {
			return err
		}
		rel, _ := filepath.Rel(from, path)
		dst := filepath.Join(to, rel)
		if info.IsDir() {
			return os.MkdirAll(dst, 0755)
		}
		b, err := os.ReadFile(path)
		if err != nil {
			return err
		}
		return os.WriteFile(dst, b, 0644)
	})
}

// Insert writes a point through the given leader.
func (c *Cluster) Insert(leader int, stream string, p dbdrv.Point) error {
	return c.Leaders[leader].Z.Insert(strings.ToLower(stream), p.Time(), p.Dims, p.Vals)
}

// SetClock advances every node's virtual clock to the same instant
// (synchronised wall clocks).
func (c *Cluster) SetClock(t time.Time) {
	if t.After(c.Now) {
		c.Now = t
	}
	for _, l := range c.Leaders {
		zenodb.VerifAdvanceClock(l.Z, c.Now)
	}
	for _, f := range c.Followers {
		if f.Up {
			zenodb.VerifAdvanceClock(f.Z, c.Now)
		}
	}
}

func leaderWALEnd(l *Leader, stream string) wal.Offset {
	entries := dbdrv.WALEntries(filepath.Join(l.Dir, "_wal", strings.ToLower(stream)))
	if len(entries) == 0 {
		return nil
	}
	return entries[len(entries)-1]
}

func (c *Cluster) streams() []string {
	seen := map[string]bool{}
	var out []string
	for _, t := range c.Cfg.Tables {
		s := strings.ToLower(t.Stream)
		if !seen[s] {
			seen[s] = true
			out = append(out, s)
		}
	}
	sort.Strings(out)
	return out
}

// Quiesce waits until every leader has routed its whole WAL, every live link
// has delivered everything submitted to it, and every follower table has
// applied everything handed to it. Exact (hook counters), no sleeping.
func (c *Cluster) Quiesce() bool {
	deadline := time.Now().Add(c.Timeout)
	for {
		if c.quiescentOnce() {
			// confirm: nothing may have moved while we were looking
			if c.quiescentOnce() {
				return true
			}
		}
		if time.Now().After(deadline) {
			c.TimedOut = true
			return false
		}
		time.Sleep(300 * time.Microsecond)
	}
}

func (c *Cluster) quiescentOnce() bool {
	for _, l := range c.Leaders {
		for _, s := range c.streams() {
			end := leaderWALEnd(l, s)
			if end == nil || l.joins == 0 {
				continue
			}
			pos := zenodb.VerifLastOffset(l.Z, s, "follow-position")
			if pos == nil || end.After(pos) {
				return false
			}
		}
	}
	for _, f := range c.Followers {
		if !f.Up {
			continue
		}
		f.mx.Lock()
		links := make(map[int]*link, len(f.links))
		for id, lk := range f.links {
			links[id] = lk
		}
		f.mx.Unlock()
		for _, lk := range links {
			lk.mx.Lock()
			dead, cut, queue := lk.dead, lk.cut, lk.queue
			gated := !lk.eager && lk.passed >= lk.allowed
			joined, received, submitted := lk.joined, lk.received, lk.submitted
			lk.mx.Unlock()
			if dead || cut {
				continue
			}
			if !joined {
				return false
			}
			if gated {
				continue // whatever waits at the gate stays there until the harness says otherwise
			}
			if queue > 0 || received < submitted {
				return false
			}
		}
		for _, t := range c.Cfg.Tables {
			name := strings.ToLower(t.Name)
			handoff := zenodb.VerifEventCount(f.Z, name, "follow-handoff")
			_, done, submit, applied := zenodb.VerifCounters(f.Z, name)
			if done < handoff || applied < submit {
				return false
			}
		}
	}
	return true
}

// QueryLeader runs a query on a leader.
func (c *Cluster) QueryLeader(leader int, sql string, includeMemStore bool) (*dbdrv.Result, error) {
	// Followers register their query handlers asynchronously, and handlers of
	// follower instances that are gone sit in the leader's buffer until a query
	// consumes them (they fail retriably, like a dead connection). A query that
	// finds a partition without a live handler reports it missing; for checks
	// about data (not about availability) retry until every partition answered.
	deadline := time.Now().Add(c.Timeout)
	for {
		res, err := dbdrv.QueryZ(c.Leaders[leader].Z, context.Background(), sql, includeMemStore, nil)
		if err != nil && strings.Contains(err.Error(), "missing partitions") && !time.Now().After(deadline) {
			// an IN-subquery that did not hear from every partition (same availability matter, reported as an error)
			time.Sleep(500 * time.Microsecond)
			continue
		}
		if err != nil || res == nil || res.Stats == nil || res.Stats.NumSuccessfulPartitions >= res.Stats.NumPartitions || time.Now().After(deadline) {
			return res, err
		}
		time.Sleep(500 * time.Microsecond)
	}
}

// DrainHandlers removes every query handler currently registered with the
// leader for the partition (each is invoked once with a cancelled, empty query
// context by asking the leader for it via a throw-away registration channel is
// not possible from outside, so the leader's own accessor is used).
func (c *Cluster) DrainHandlers(leader, partition int) {
	zenodb.VerifDrainQueryHandlers(c.Leaders[leader].Z, partition)
}

// QueryLeaderOnce runs a query on a leader without retrying.
func (c *Cluster) QueryLeaderOnce(ctx context.Context, leader int, sql string, includeMemStore bool) (*dbdrv.Result, error) {
	return dbdrv.QueryZ(c.Leaders[leader].Z, ctx, sql, includeMemStore, nil)
}

// WaitHandlers waits until every follower that is up has at least n unused
// query handlers registered with the leader's current instance (a follower
// registers them asynchronously after it starts, as the real server does).
func (c *Cluster) WaitHandlers(leader int, n int) bool {
	z := c.Leaders[leader].Z
	deadline := time.Now().Add(c.Timeout)
	for {
		ok := true
		for _, f := range c.Followers {
			if !f.Up {
				continue
			}
			f.mx.Lock()
			avail := f.regs[z] - f.uses[z]
			f.mx.Unlock()
			if avail < n {
				ok = false
			}
		}
		if ok {
			return true
		}
		if time.Now().After(deadline) {
			c.TimedOut = true
			return false
		}
		time.Sleep(200 * time.Microsecond)
	}
}

// QueryFollower runs a query directly on a follower.
func (f *Follower) Query(sql string, includeMemStore bool) (*dbdrv.Result, error) {
	return dbdrv.QueryZ(f.Z, context.Background(), sql, includeMemStore, nil)
}

// FlushFollower force-flushes one table (or all with "") of a follower.
func (f *Follower) Flush(table string) {
	if table == "" {
		f.Z.FlushAll()
		return
	}
	zenodb.VerifFlushTable(f.Z, strings.ToLower(table))
}

// DebugState renders the counters quiescence is decided on.
func (c *Cluster) DebugState() string {
	var sb strings.Builder
	for _, l := range c.Leaders {
		for _, s := range c.streams() {
			fmt.Fprintf(&sb, "leader %d stream %s: joins=%d position=%v end=%v; ", l.ID, s, l.joins, zenodb.VerifLastOffset(l.Z, s, "follow-position"), leaderWALEnd(l, s))
		}
	}
	for _, f := range c.Followers {
		f.mx.Lock()
		for id, lk := range f.links {
			lk.mx.Lock()
			fmt.Fprintf(&sb, "follower %d.%d link->%d: joined=%v cut=%v dead=%v eager=%v queue=%d received=%d submitted=%d delivered=%d request={%s}; ", f.Partition, f.ID, id, lk.joined, lk.cut, lk.dead, lk.eager, lk.queue, lk.received, lk.submitted, lk.delivered, lk.desc)
			lk.mx.Unlock()
		}
		f.mx.Unlock()
		if f.Up {
			for _, t := range c.Cfg.Tables {
				name := strings.ToLower(t.Name)
				_, done, submit, applied := zenodb.VerifCounters(f.Z, name)
				fmt.Fprintf(&sb, "%s: handoff=%d done=%d submit=%d applied=%d", name, zenodb.VerifEventCount(f.Z, name, "follow-handoff"), done, submit, applied)
				if d, err := zenodb.VerifDump(f.Z, name); err == nil && d != nil {
					fmt.Fprintf(&sb, " memrows=%d filerows=%d file=%s", len(d.MemRows), len(d.FileRows), filepath.Base(d.FileName))
				}
				sb.WriteString("; ")
			}
			fmt.Fprintf(&sb, "clock=%v; ", zenodb.VerifNow(f.Z).UTC().Format(time.RFC3339Nano))
		}
	}
	return sb.String()
}

// OffsetOrdinals returns, for a table of this follower, the in-memory and the
// file-store offset for the given leader as ordinals of the leader's WAL
// entries (0 = none, -1 = an offset that is not an entry boundary).
func (f *Follower) OffsetOrdinals(table string, leader int) (mem, file int) {
	l := f.c.Leaders[leader]
	ord := map[string]int{}
	for _, s := range f.c.streams() {
		for i, e := range dbdrv.WALEntries(filepath.Join(l.Dir, "_wal", s)) {
			ord[string(e)] = i + 1
		}
	}
	dump, err := zenodb.VerifDump(f.Z, strings.ToLower(table))
	if err != nil || dump == nil {
		return -1, -1
	}
	conv := func(m map[int][]byte) int {
		o, ok := m[l.ID]
		if !ok || len(o) == 0 {
			return 0
		}
		if n, ok := ord[string(o)]; ok {
			return n
		}
		return -1
	}
	return conv(dump.MemOffsets), conv(dump.FileOffsets)
}

// Close shuts everything down.
func (c *Cluster) Close() {
	for _, f := range c.Followers {
		f.Stop()
	}
	for _, l := range c.Leaders {
		l.Z.Close()
		forget(l.Z)
	}
}
