// Package fw is the shared framework of the bounded-exhaustive checks: a
// registry of properties, a sharded worker-subprocess orchestrator, violation
// classification against known_findings.json, replay, and evidence writing.
package fw

import (
	"bufio"
	"bytes"
	"crypto/sha256"
	"encoding/hex"
	"encoding/json"
	"fmt"
	"hash/fnv"
	"os"
	"os/exec"
	"path/filepath"
	"sort"
	"strconv"
	"strings"
	"sync"
	"time"
)

const Root = "/verif"

// Violation is one failing case, with everything needed to replay it.
type Violation struct {
	Property string          `json:"property"`
	Key      string          `json:"key"`    // classification key (matched against known findings)
	Detail   string          `json:"detail"` // human readable diff
	Case     json.RawMessage `json:"case"`   // replayable case
}

// Result is what one shard (and, merged, one run) measured.
type Result struct {
	Evaluations   int64             `json:"evaluations"`
	Nontrivial    int64             `json:"nontrivial"`
	NontrivialSet []uint64          `json:"nontrivial_set,omitempty"`
	States        []uint64          `json:"states,omitempty"`
	Transitions   int64             `json:"transitions"`
	Traces        int64             `json:"traces"`
	Programs      int64             `json:"programs"`
	Disagreements int64             `json:"disagreements"`
	Outcomes      []uint64          `json:"outcomes,omitempty"`
	Samples       []json.RawMessage `json:"samples,omitempty"`
	Violations    []Violation       `json:"violations,omitempty"`
	ViolationsN   int64             `json:"violations_n"`
	Exhaustive    bool              `json:"exhaustive"`
	Notes         []string          `json:"notes,omitempty"`
	Extra         map[string]int64  `json:"extra,omitempty"`
	Bound         string            `json:"bound,omitempty"`
}

// Ctx is handed to a property's Run / Replay function inside a worker.
type Ctx struct {
	Tier     string
	Shard    int
	NShards  int
	Seed     int64
	Deadline time.Time
	R        *Result

	mx        sync.Mutex
	states    map[uint64]struct{}
	outcomes  map[uint64]struct{}
	nontriv   map[uint64]struct{}
	sampleCls map[string]bool
	Scratch   string
}

func NewCtx(tier string, shard, nshards int, seed int64, budget time.Duration) *Ctx {
	c := &Ctx{Tier: tier, Shard: shard, NShards: nshards, Seed: seed, R: &Result{Exhaustive: true, Extra: map[string]int64{}},
		states: map[uint64]struct{}{}, outcomes: map[uint64]struct{}{}, nontriv: map[uint64]struct{}{}, sampleCls: map[string]bool{}}
	c.Deadline = time.Now().Add(budget)
	// pid plus start stamp: pids are reused (pid_max 32768) and a killed worker leaves its directory behind; a later
	// worker with the same pid must never open a database on those stale files
	c.Scratch = filepath.Join(ScratchBase(), fmt.Sprintf("w%d-%d", os.Getpid(), procStamp))
	return c
}

var procStamp = time.Now().UnixNano()

// purgeStaleScratch removes data directories left behind by workers that are no longer running, and temporary files
// (flush temp files of crashed database instances, sort spill files) older than three hours.
func purgeStaleScratch() {
	base := ScratchBase()
	ents, _ := os.ReadDir(base)
	for _, e := range ents {
		name := e.Name()
		if !strings.HasPrefix(name, "w") || !e.IsDir() {
			continue
		}
		pidStr := strings.SplitN(name[1:], "-", 2)[0]
		if _, err := strconv.Atoi(pidStr); err != nil {
			continue
		}
		if comm, err := os.ReadFile("/proc/" + pidStr + "/comm"); err == nil && strings.HasPrefix(string(comm), "verif") {
			continue // a live worker (possibly of a concurrent check)
		}
		os.RemoveAll(filepath.Join(base, name))
	}
	tmp := filepath.Join(base, "tmp")
	ents, _ = os.ReadDir(tmp)
	for _, e := range ents {
		if info, err := e.Info(); err == nil && time.Since(info.ModTime()) > 3*time.Hour && !strings.HasPrefix(e.Name(), "go-build") {
			os.RemoveAll(filepath.Join(tmp, e.Name()))
		}
	}
}

// ScratchBase is where data directories are created ($VERIF_SCRATCH, tmpfs when
// the check script found one).
func ScratchBase() string {
	if v := os.Getenv("VERIF_SCRATCH"); v != "" {
		return v
	}
	return filepath.Join(Root, ".scratch", "data")
}

func (c *Ctx) Thorough() bool { return c.Tier == "thorough" }

// Mine tells whether case number idx belongs to this shard.
func (c *Ctx) Mine(idx int64) bool {
	if c.NShards <= 1 {
		return true
	}
	return int(idx%int64(c.NShards)) == c.Shard
}

// Expired tells whether the shard's time budget is used up; the caller should
// then call Incomplete and return.
func (c *Ctx) Expired() bool { return time.Now().After(c.Deadline) }

func (c *Ctx) Incomplete(note string) {
	c.mx.Lock()
	defer c.mx.Unlock()
	c.R.Exhaustive = false
	for _, n := range c.R.Notes {
		if n == note {
			return
		}
	}
	c.R.Notes = append(c.R.Notes, note)
}

func (c *Ctx) Note(note string) {
	c.mx.Lock()
	defer c.mx.Unlock()
	for _, n := range c.R.Notes {
		if n == note {
			return
		}
	}
	c.R.Notes = append(c.R.Notes, note)
}

func (c *Ctx) Eval(n int64) { c.mx.Lock(); c.R.Evaluations += n; c.mx.Unlock() }

// Nontrivial counts a distinct non-trivial case, identified by key.
func (c *Ctx) Nontrivial(key string) {
	h := Hash(key)
	c.mx.Lock()
	c.nontriv[h] = struct{}{}
	c.mx.Unlock()
}
func (c *Ctx) Transition(n int64) { c.mx.Lock(); c.R.Transitions += n; c.mx.Unlock() }
func (c *Ctx) Trace(n int64)      { c.mx.Lock(); c.R.Traces += n; c.mx.Unlock() }
func (c *Ctx) Program(n int64)    { c.mx.Lock(); c.R.Programs += n; c.mx.Unlock() }
func (c *Ctx) Disagreement(n int64) {
	c.mx.Lock()
	c.R.Disagreements += n
	c.mx.Unlock()
}
func (c *Ctx) Count(name string, n int64) { c.mx.Lock(); c.R.Extra[name] += n; c.mx.Unlock() }

// State records a distinct state key; it returns true if the state is new.
func (c *Ctx) State(key string) bool {
	h := Hash(key)
	c.mx.Lock()
	defer c.mx.Unlock()
	if _, ok := c.states[h]; ok {
		return false
	}
	c.states[h] = struct{}{}
	return true
}

// Outcome records a distinct observed outcome.
func (c *Ctx) Outcome(key string) {
	h := Hash(key)
	c.mx.Lock()
	c.outcomes[h] = struct{}{}
	c.mx.Unlock()
}

// Sample keeps one written-out case per class (up to 3 classes per shard).
func (c *Ctx) Sample(class string, v interface{}) {
	c.mx.Lock()
	defer c.mx.Unlock()
	if c.sampleCls[class] || len(c.R.Samples) >= 3 {
		return
	}
	c.sampleCls[class] = true
	b, err := json.Marshal(map[string]interface{}{"class": class, "case": v})
	if err == nil {
		c.R.Samples = append(c.R.Samples, b)
	}
}

// Violate records a violation.
func (c *Ctx) Violate(prop, key, detail string, cas interface{}) {
	b, _ := json.Marshal(cas)
	c.mx.Lock()
	defer c.mx.Unlock()
	c.R.ViolationsN++
	// keep at most 3 per key and 40 in total
	n := 0
	for _, v := range c.R.Violations {
		if v.Key == key {
			n++
		}
	}
	if n >= 3 || len(c.R.Violations) >= 40 {
		return
	}
	if len(detail) > 4000 {
		detail = detail[:4000] + "…"
	}
	c.R.Violations = append(c.R.Violations, Violation{Property: prop, Key: key, Detail: detail, Case: b})
}

func (c *Ctx) finish() {
	for h := range c.states {
		c.R.States = append(c.R.States, h)
	}
	for h := range c.outcomes {
		c.R.Outcomes = append(c.R.Outcomes, h)
	}
	for h := range c.nontriv {
		c.R.NontrivialSet = append(c.R.NontrivialSet, h)
	}
}

func Hash(s string) uint64 {
	h := fnv.New64a()
	h.Write([]byte(s))
	return h.Sum64()
}

// Prop describes one property check.
type Prop struct {
	ID          string
	Level       string // evidence level
	Rule        string
	Assumptions []string
	TrustedBase []string
	CheckerCmd  string
	// Shards returns how many worker shards to use for the tier.
	Shards func(tier string) int
	// Budget is the per-shard wall-clock budget after which the shard stops
	// with exhaustive:false (never a violation).
	Budget func(tier string) time.Duration
	Run    func(c *Ctx)
	// Replay re-executes a single recorded case and reports a violation on c if
	// it reproduces.
	Replay func(c *Ctx, cas json.RawMessage)
	// Pre runs in the orchestrator before the workers start (e.g. an external
	// model checker whose state dump the workers replay). A returned error that
	// starts with "VIOLATION" is reported as such; any other error marks the run
	// incomplete. The returned counts are added to the evidence.
	Pre func(tier string) (map[string]int64, error)
	// Post runs in the orchestrator after merging.
	Post func(tier string, merged *Result) error
	// Par is the number of worker processes run concurrently (default 4).
	Par int
	// NoThreads: the check uses process-global hooks and must run one shard per process.
	NoThreads bool
}

var registry = map[string]*Prop{}

func Register(p *Prop)    { registry[p.ID] = p }
func Get(id string) *Prop { return registry[id] }
func IDs() []string {
	var ids []string
	for id := range registry {
		ids = append(ids, id)
	}
	sort.Strings(ids)
	return ids
}

// ---------------------------------------------------------------------------
// worker side

func WorkerMain(args []string) int {
	// args: <prop> <tier> <shard> <nshards> | <prop> replay <file>
	p := Get(args[0])
	if p == nil {
		fmt.Fprintf(os.Stderr, "unknown property %v\n", args[0])
		return 2
	}
	seed, _ := strconv.ParseInt(os.Getenv("VERIF_SEED"), 10, 64)
	// the code under test prints debugging leftovers to stdout (planner:
	// "Ascend at …"): keep the result channel clean
	resultOut := os.Stdout
	if devnull, err := os.OpenFile(os.DevNull, os.O_WRONLY, 0); err == nil {
		os.Stdout = devnull
	}
	var c *Ctx
	if args[1] == "replay" {
		b, err := os.ReadFile(args[2])
		if err != nil {
			fmt.Fprintln(os.Stderr, err)
			return 2
		}
		var v Violation
		if err := json.Unmarshal(b, &v); err != nil {
			fmt.Fprintln(os.Stderr, err)
			return 2
		}
		c = NewCtx("quick", 0, 1, seed, 10*time.Minute)
		os.MkdirAll(c.Scratch, 0755)
		defer os.RemoveAll(c.Scratch)
		if p.Replay == nil {
			fmt.Fprintln(os.Stderr, "property has no replay")
			return 2
		}
		p.Replay(c, v.Case)
	} else {
		shard, _ := strconv.Atoi(args[2])
		n, _ := strconv.Atoi(args[3])
		budget := 20 * time.Minute
		if p.Budget != nil {
			budget = p.Budget(args[1])
		}
		threads, _ := strconv.Atoi(os.Getenv("VERIF_THREADS"))
		if threads <= 1 || p.NoThreads {
			c = NewCtx(args[1], shard, n, seed, budget)
			os.MkdirAll(c.Scratch, 0755)
			defer os.RemoveAll(c.Scratch)
			p.Run(c)
		} else {
			// several sub-shards as goroutines of one process (one heap, one GC)
			subs := make([]*Ctx, threads)
			var wg sync.WaitGroup
			for t := 0; t < threads; t++ {
				subs[t] = NewCtx(args[1], shard*threads+t, n*threads, seed, budget)
				subs[t].Scratch = filepath.Join(subs[t].Scratch, fmt.Sprintf("t%d", t))
				os.MkdirAll(subs[t].Scratch, 0755)
				wg.Add(1)
				go func(sc *Ctx) {
					defer wg.Done()
					p.Run(sc)
				}(subs[t])
			}
			wg.Wait()
			c = NewCtx(args[1], shard, n, seed, budget)
			defer os.RemoveAll(c.Scratch)
			st, oc, nt := map[uint64]struct{}{}, map[uint64]struct{}{}, map[uint64]struct{}{}
			for _, sc := range subs {
				sc.finish()
				merge(c.R, sc.R, st, oc, nt)
			}
			c.states, c.outcomes, c.nontriv = st, oc, nt
		}
	}
	c.finish()
	b, _ := json.Marshal(c.R)
	w := bufio.NewWriter(resultOut)
	w.WriteString("\nRESULT ")
	w.Write(b)
	w.WriteString("\n")
	w.Flush()
	return 0
}

// ---------------------------------------------------------------------------
// orchestrator side

type knownFile struct {
	Findings []struct {
		Property string `json:"property"`
		ID       string `json:"id"`
		Key      string `json:"key"`
		What     string `json:"what"`
	} `json:"findings"`
	Fixed []string `json:"fixed"`
}

func loadKnown() *knownFile {
	k := &knownFile{}
	b, err := os.ReadFile(filepath.Join(Root, "known_findings.json"))
	if err == nil {
		json.Unmarshal(b, k)
	}
	return k
}

func runWorker(self string, args []string, timeout time.Duration, logPath string) (*Result, error) {
	cmd := exec.Command(self, append([]string{"worker"}, args...)...)
	var out bytes.Buffer
	cmd.Stdout = &out
	lf, _ := os.Create(logPath)
	if lf != nil {
		defer lf.Close()
		cmd.Stderr = lf
	}
	cmd.Env = append(os.Environ(), "GOMAXPROCS="+envOr("VERIF_WORKER_GOMAXPROCS", "2"))
	if err := cmd.Start(); err != nil {
		return nil, err
	}
	done := make(chan error, 1)
	go func() { done <- cmd.Wait() }()
	var werr error
	select {
	case werr = <-done:
	case <-time.After(timeout):
		cmd.Process.Kill()
		<-done
		werr = fmt.Errorf("worker timed out after %v", timeout)
	}
	idx := bytes.LastIndex(out.Bytes(), []byte("\nRESULT "))
	if idx < 0 {
		if werr == nil {
			werr = fmt.Errorf("worker produced no result")
		}
		tail := out.String()
		if len(tail) > 2000 {
			tail = tail[len(tail)-2000:]
		}
		return nil, fmt.Errorf("%v; stdout tail: %s", werr, tail)
	}
	line := out.Bytes()[idx+len("\nRESULT "):]
	if nl := bytes.IndexByte(line, '\n'); nl >= 0 {
		line = line[:nl]
	}
	r := &Result{}
	if err := json.Unmarshal(line, r); err != nil {
		return nil, err
	}
	return r, nil
}

func envOr(k, d string) string {
	if v := os.Getenv(k); v != "" {
		return v
	}
	return d
}

func merge(dst, src *Result, st, oc, nt map[uint64]struct{}) {
	dst.Evaluations += src.Evaluations
	dst.Transitions += src.Transitions
	dst.Traces += src.Traces
	dst.Programs += src.Programs
	dst.Disagreements += src.Disagreements
	dst.ViolationsN += src.ViolationsN
	dst.Exhaustive = dst.Exhaustive && src.Exhaustive
	for _, h := range src.States {
		st[h] = struct{}{}
	}
	for _, h := range src.Outcomes {
		oc[h] = struct{}{}
	}
	for _, h := range src.NontrivialSet {
		nt[h] = struct{}{}
	}
	for _, n := range src.Notes {
		found := false
		for _, m := range dst.Notes {
			if m == n {
				found = true
			}
		}
		if !found && len(dst.Notes) < 30 {
			dst.Notes = append(dst.Notes, n)
		}
	}
	for k, v := range src.Extra {
		dst.Extra[k] += v
	}
	if len(dst.Samples) < 6 {
		for _, s := range src.Samples {
			if len(dst.Samples) < 6 {
				dst.Samples = append(dst.Samples, s)
			}
		}
	}
	dst.Violations = append(dst.Violations, src.Violations...)
	if src.Bound != "" {
		dst.Bound = src.Bound
	}
}

// CheckMain runs a whole check: shards, merge, classify, replay, evidence.
func CheckMain(self, id, tier string) int {
	p := Get(id)
	if p == nil {
		fmt.Fprintf(os.Stderr, "unknown property %v\n", id)
		return 2
	}
	start := time.Now()
	seed, _ := strconv.ParseInt(os.Getenv("VERIF_SEED"), 10, 64)
	n := 1
	if p.Shards != nil {
		n = p.Shards(tier)
	}
	budget := 20 * time.Minute
	if p.Budget != nil {
		budget = p.Budget(tier)
	}
	// Measured on the build sandbox: database-driving workers are dominated by
	// page faults, thread wake-ups and small file operations, which do not scale
	// there beyond ~4 concurrent processes (16 is slower than 4); pure-CPU checks
	// set Par themselves.
	par := 4
	if p.Par > 0 {
		par = p.Par
	}
	if v, err := strconv.Atoi(os.Getenv("VERIF_PAR")); err == nil && v > 0 {
		par = v
	}
	logDir := filepath.Join(Root, ".scratch", "logs")
	os.MkdirAll(logDir, 0755)
	purgeStaleScratch()
	merged := &Result{Exhaustive: true, Extra: map[string]int64{}}
	st, oc, nt := map[uint64]struct{}{}, map[uint64]struct{}{}, map[uint64]struct{}{}
	preViolation := ""
	if p.Pre != nil {
		extra, err := p.Pre(tier)
		for k, v := range extra {
			merged.Extra[k] += v
		}
		if err != nil {
			if strings.HasPrefix(err.Error(), "VIOLATION") {
				preViolation = err.Error()
			} else {
				merged.Exhaustive = false
				merged.Notes = append(merged.Notes, "pre step: "+trunc(err.Error(), 500))
			}
		}
	}
	var mx sync.Mutex
	var crashes []string
	sem := make(chan struct{}, par)
	var wg sync.WaitGroup
	// VERIF_SEED only permutes the order in which shards are started.
	order := make([]int, n)
	for i := range order {
		order[i] = (i + int(seed%int64(n)) + n) % n
	}
	for _, shard := range order {
		wg.Add(1)
		sem <- struct{}{}
		go func(shard int) {
			defer wg.Done()
			defer func() { <-sem }()
			logPath := filepath.Join(logDir, fmt.Sprintf("%s-%s-%d.log", id, tier, shard))
			r, err := runWorker(self, []string{id, tier, strconv.Itoa(shard), strconv.Itoa(n)}, budget+2*time.Minute, logPath)
			crash := ""
			if err != nil {
				// A worker that died from a panic raised inside the code under test (not
				// in the harness) is evidence against the code, provided it happens again
				// on a second run of the same shard.
				if where := crashInRepo(logPath); where != "" {
					logPath2 := logPath + ".rerun"
					if _, err2 := runWorker(self, []string{id, tier, strconv.Itoa(shard), strconv.Itoa(n)}, budget+2*time.Minute, logPath2); err2 != nil {
						if where2 := crashInRepo(logPath2); where2 != "" {
							crash = where2
						}
					}
				}
			}
			mx.Lock()
			defer mx.Unlock()
			if crash != "" {
				keep := filepath.Join(Root, "replays", fmt.Sprintf("%s-crash-shard%d.log", id, shard))
				os.MkdirAll(filepath.Join(Root, "replays"), 0755)
				if b, rerr := os.ReadFile(logPath); rerr == nil {
					os.WriteFile(keep, b, 0644)
				}
				crashes = append(crashes, fmt.Sprintf("VIOLATION property=%s replay=%s\n  key=process-crash-in-code-under-test (shard %d of %d, reproduced on re-run)\n  %s", id, keep, shard, n, crash))
				merged.Exhaustive = false
				return
			}
			if err != nil {
				merged.Exhaustive = false
				merged.Notes = append(merged.Notes, fmt.Sprintf("shard %d: harness failure (not a violation): %v", shard, trunc(err.Error(), 600)))
				fmt.Printf("HARNESS-FAILURE property=%s shard=%d %v\n", id, shard, trunc(err.Error(), 600))
				return
			}
			merge(merged, r, st, oc, nt)
		}(shard)
	}
	wg.Wait()

	// classify violations
	known := loadKnown()
	exit := 0
	var realViolations int64
	for _, cr := range crashes {
		fmt.Println(cr)
		exit = 1
		realViolations++
	}
	if preViolation != "" {
		fmt.Println(preViolation)
		exit = 1
		realViolations++
	}
	os.MkdirAll(filepath.Join(Root, "replays"), 0755)
	knownSeen := map[string]int{}
	reported := map[string]bool{}
	nondeterministic := 0
	for _, v := range merged.Violations {
		matched := ""
		for _, f := range known.Findings {
			if f.Property == id && f.Key == v.Key {
				matched = f.ID + " " + f.What
			}
		}
		if matched != "" {
			knownSeen[matched]++
			continue
		}
		if reported[v.Key] || len(reported) >= 5 {
			// further violations (same key, or beyond the first five distinct keys) are counted, not replayed
			realViolations++
			continue
		}
		// write replay artefact, then re-run it 3 times
		b, _ := json.MarshalIndent(v, "", " ")
		sum := sha256.Sum256(v.Case)
		path := filepath.Join(Root, "replays", fmt.Sprintf("%s-%s.json", id, hex.EncodeToString(sum[:6])))
		os.WriteFile(path, b, 0644)
		repro := 0
		if p.Replay != nil {
			for i := 0; i < 3; i++ {
				r, err := runWorker(self, []string{id, "replay", path}, 5*time.Minute, filepath.Join(logDir, fmt.Sprintf("%s-replay.log", id)))
				if err == nil && r.ViolationsN > 0 {
					repro++
				}
			}
		} else {
			repro = 3
		}
		if repro == 3 {
			reported[v.Key] = true
			realViolations++
			exit = 1
			fmt.Printf("VIOLATION property=%s replay=%s\n", id, path)
			fmt.Printf("  key=%s\n  %s\n", v.Key, strings.ReplaceAll(trunc(v.Detail, 1500), "\n", "\n  "))
		} else {
			nondeterministic++
			merged.Exhaustive = false
			merged.Notes = append(merged.Notes, fmt.Sprintf("non-reproducing failure (%d/3) key=%s: harness problem, not counted as violation; replay=%s", repro, v.Key, path))
			fmt.Printf("NONDETERMINISTIC property=%s key=%s reproduced=%d/3 replay=%s\n", id, v.Key, repro, path)
		}
	}
	var ks []string
	for k := range knownSeen {
		ks = append(ks, k)
	}
	sort.Strings(ks)
	for _, k := range ks {
		fmt.Printf("KNOWN-FINDING: property=%s %s (seen %d×)\n", id, k, knownSeen[k])
	}

	if p.Post != nil {
		if err := p.Post(tier, merged); err != nil {
			if strings.HasPrefix(err.Error(), "VIOLATION") {
				fmt.Println(err.Error())
				exit = 1
				realViolations++
			} else {
				merged.Exhaustive = false
				merged.Notes = append(merged.Notes, "post step: "+err.Error())
			}
		}
	}

	nontrivial := int64(len(nt))
	cov := map[string]interface{}{
		"evaluations":         merged.Evaluations,
		"distinct_nontrivial": nontrivial,
		"rule":                p.Rule,
		"samples":             merged.Samples,
		"exhaustive":          merged.Exhaustive,
		"distinct_outcomes":   len(oc),
		"shards":              n,
		"notes":               merged.Notes,
		"known_findings_seen": knownSeen,
		"nondeterministic":    nondeterministic,
	}
	if merged.Bound != "" {
		cov["bound_completed"] = merged.Bound
	}
	for k, v := range merged.Extra {
		cov[k] = v
	}
	if len(st) > 0 || merged.Transitions > 0 {
		cov["states"] = len(st)
		cov["transitions"] = merged.Transitions
		cov["traces_validated_against_impl"] = merged.Traces
	}
	if merged.Programs > 0 {
		cov["programs"] = merged.Programs
		cov["disagreements_checked"] = merged.Disagreements
	}
	if len(p.TrustedBase) > 0 {
		cov["trusted_base"] = p.TrustedBase
	}
	if len(merged.Samples) == 0 {
		cov["samples"] = []string{"(no case executed)"}
	}
	ev := map[string]interface{}{
		"property_id": id,
		"tier":        tier,
		"seed":        seed,
		"level":       p.Level,
		"coverage":    cov,
		"assumptions": p.Assumptions,
		"wall_s":      time.Since(start).Seconds(),
		"violations":  realViolations,
	}
	evDir := filepath.Join(Root, "evidence")
	if d := os.Getenv("VERIF_EVIDENCE_DIR"); d != "" {
		// runs against deliberately broken trees (seeded changes) must not touch the committed evidence
		evDir = d
	}
	os.MkdirAll(evDir, 0755)
	b, _ := json.MarshalIndent(ev, "", " ")
	os.WriteFile(filepath.Join(evDir, id+".json"), b, 0644)
	fmt.Printf("%s %s: evaluations=%d nontrivial=%d states=%d transitions=%d outcomes=%d exhaustive=%v violations=%d known=%d wall=%.1fs\n",
		id, tier, merged.Evaluations, nontrivial, len(st), merged.Transitions, len(oc), merged.Exhaustive, realViolations, len(knownSeen), time.Since(start).Seconds())
	if len(oc) == 1 && merged.Evaluations > 10 {
		fmt.Printf("WARNING: a single distinct outcome from %d executions (vacuity?)\n", merged.Evaluations)
	}
	for _, nte := range merged.Notes {
		fmt.Printf("  note: %s\n", nte)
	}
	return exit
}

// ReplayMain re-runs one replay artefact and prints the outcome.
func ReplayMain(self, id, path string) int {
	r, err := runWorker(self, []string{id, "replay", path}, 10*time.Minute, filepath.Join(Root, ".scratch", "logs", id+"-replay.log"))
	if err != nil {
		fmt.Println("replay failed to run:", err)
		return 2
	}
	if r.ViolationsN > 0 {
		fmt.Printf("VIOLATION property=%s replay=%s\n", id, path)
		for _, v := range r.Violations {
			fmt.Printf("  key=%s\n  %s\n", v.Key, v.Detail)
		}
		return 1
	}
	for _, n := range r.Notes {
		fmt.Println("  note (replay incomplete):", n)
	}
	fmt.Println("replay: no violation")
	return 0
}

// crashInRepo looks at a dead worker's log: if it died from a Go panic or fatal
// error whose innermost frames are in the code under test (/repo), it returns a
// short description, else "".
func crashInRepo(logPath string) string {
	b, err := os.ReadFile(logPath)
	if err != nil {
		return ""
	}
	text := string(b)
	i := strings.Index(text, "panic: ")
	if j := strings.Index(text, "fatal error: "); j >= 0 && (i < 0 || j < i) {
		i = j
	}
	if i < 0 {
		return ""
	}
	lines := strings.Split(text[i:], "\n")
	head := lines[0]
	// the frames of the panicking goroutine follow the first "goroutine N [running]:" line
	var frames []string
	started := false
	for _, l := range lines[1:] {
		if strings.HasPrefix(l, "goroutine ") {
			if started {
				break
			}
			started = true
			continue
		}
		if started && strings.HasPrefix(l, "\t") {
			frames = append(frames, strings.TrimSpace(l))
		}
	}
	// skip runtime frames; the first non-runtime frame decides
	for _, f := range frames {
		if strings.Contains(f, "/src/runtime/") || strings.Contains(f, "/src/sync/") {
			continue
		}
		if strings.Contains(f, "/pkg/mod/") {
			continue // a dependency: whoever called it decides
		}
		if strings.HasPrefix(f, "/repo/") {
			return trunc(head, 300) + " at " + f
		}
		return ""
	}
	return ""
}

func trunc(s string, n int) string {
	if len(s) > n {
		return s[:n] + "…"
	}
	return s
}
