---------------------------- MODULE c12_follow ----------------------------
(* Offset hand-over between one leader and one follower of partition 0 that    *)
(* carries two tables with different partition keys (C12). Every action is a    *)
(* macro step: it runs until leader and follower are quiescent again, which is  *)
(* how the harness drives the implementation. hist records the path, so every   *)
(* reachable state is one path and carries the expected follower state after it.*)
EXTENDS Naturals, Sequences, FiniteSets

CONSTANTS MaxIns, MaxLen, FixD10

Tables == {"ta", "tb"}
Entries == 1..MaxIns

\* routing of entry e for this follower: in its partition for the table's keys?
InPart(t, e) == IF t = "ta" THEN e % 3 # 0 ELSE e % 3 # 2
\* does the entry pass the table's WHERE?
Where(t, e) == IF t = "tb" THEN e % 3 # 0 ELSE TRUE

VARIABLES n,        \* entries in the leader's WAL
          mem,      \* mem[t]: bag (entry -> count) applied in the memstore
          disk,     \* disk[t]: bag persisted in the file store
          memOff,   \* memOff[t]: offset in the memstore
          diskOff,  \* diskOff[t]: persisted offset (0 = none)
          dirty,    \* dirty[t]: offset changed since the last flush
          folOff,   \* folOff[t]: the follower's per-table dedup offset
          startOff, \* startOff[t]: what the follower announced when it started
          spec,     \* spec[t]: the leader's offset for (follower, table)
          joined,   \* the leader knows this follower instance
          up,       \* link usable
          lastDel,  \* last entry delivered on this follower instance
          hist

vars == <<n, mem, disk, memOff, diskOff, dirty, folOff, startOff, spec, joined, up, lastDel, hist>>

Zero == [e \in Entries |-> 0]
Max(a, b) == IF a > b THEN a ELSE b
Min(S) == CHOOSE x \in S : \A y \in S : x <= y

Init == /\ n = 0
        /\ mem = [t \in Tables |-> Zero]
        /\ disk = [t \in Tables |-> Zero]
        /\ memOff = [t \in Tables |-> 0]
        /\ diskOff = [t \in Tables |-> 0]
        /\ dirty = [t \in Tables |-> FALSE]
        /\ folOff = [t \in Tables |-> 0]
        /\ startOff = [t \in Tables |-> 0]
        /\ spec = [t \in Tables |-> 0]
        /\ joined = TRUE
        /\ up = TRUE
        /\ lastDel = 0
        /\ hist = <<>>

\* the leader routes entry e given specs sp; returns whether the follower is included
Included(sp, e) == \E t \in Tables : InPart(t, e) /\ Where(t, e) /\ e > sp[t]
SpecAfter(sp, e) == [t \in Tables |-> IF InPart(t, e) THEN Max(sp[t], e) ELSE sp[t]]

\* follower side: deliver entry e
RECURSIVE Route(_, _, _, _, _, _, _, _)
\* Route entries from..to through leader specs sp and, if the link is up, the follower.
\* Returns a record with the new follower state.
Route(from, to, sp, m, mo, dy, fo, ld) ==
  IF from > to THEN [spec |-> sp, mem |-> m, memOff |-> mo, dirty |-> dy, folOff |-> fo, lastDel |-> ld]
  ELSE LET e == from
           inc == Included(sp, e)
           sp2 == SpecAfter(sp, e)
       IN IF inc
          THEN LET handed == {t \in Tables : e > fo[t]}
                   m2 == [t \in Tables |-> IF t \in handed /\ InPart(t, e) /\ Where(t, e)
                                           THEN [m[t] EXCEPT ![e] = @ + 1] ELSE m[t]]
                   mo2 == [t \in Tables |-> IF t \in handed THEN e ELSE mo[t]]
                   dy2 == [t \in Tables |-> IF t \in handed THEN TRUE ELSE dy[t]]
                   fo2 == [t \in Tables |-> IF t \in handed THEN e ELSE fo[t]]
               IN Route(from + 1, to, sp2, m2, mo2, dy2, fo2, e)
          ELSE Route(from + 1, to, sp2, m, mo, dy, fo, ld)

Apply(r) == /\ spec' = r.spec
            /\ mem' = r.mem
            /\ memOff' = r.memOff
            /\ dirty' = r.dirty
            /\ folOff' = r.folOff
            /\ lastDel' = r.lastDel

\* the follower (re)joins: the leader sets its specs and re-reads the WAL from the earliest one
Join(earliest, tableOff, m, mo, dy, fo, ld) ==
  LET sp == [t \in Tables |-> Max(tableOff[t], earliest)]
      start == Min({sp[t] : t \in Tables})
  IN Route(start + 1, n, sp, m, mo, dy, fo, ld)

Earliest(so) == IF FixD10 /\ \E t \in Tables : so[t] = 0 THEN 0 ELSE
                  IF \A t \in Tables : so[t] = 0 THEN 0 ELSE Min({so[t] : t \in Tables} \ {0})

Insert == /\ n < MaxIns
          /\ n' = n + 1
          /\ IF up /\ joined
             THEN Apply(Route(n + 1, n + 1, spec, mem, memOff, dirty, folOff, lastDel))
             ELSE /\ spec' = IF joined THEN SpecAfter(spec, n + 1) ELSE spec
                  /\ UNCHANGED <<mem, memOff, dirty, folOff, lastDel>>
          /\ UNCHANGED <<disk, diskOff, startOff, joined, up>>
          /\ hist' = Append(hist, <<"ins", "">>)

Flush(t) == /\ \/ \E e \in Entries : mem[t][e] > 0
               \/ dirty[t]
            /\ disk' = [disk EXCEPT ![t] = [e \in Entries |-> disk[t][e] + mem[t][e]]]
            /\ mem' = [mem EXCEPT ![t] = Zero]
            /\ diskOff' = [diskOff EXCEPT ![t] = memOff[t]]
            /\ dirty' = [dirty EXCEPT ![t] = FALSE]
            /\ UNCHANGED <<n, memOff, folOff, startOff, spec, joined, up, lastDel>>
            /\ hist' = Append(hist, <<"flush", t>>)

\* restart of the follower from what is on disk (dk, dko)
Restart(dk, dko) ==
  LET r == Join(Earliest(dko), dko, [t \in Tables |-> Zero], dko, [t \in Tables |-> FALSE], dko, 0)
  IN /\ disk' = dk
     /\ diskOff' = dko
     /\ startOff' = dko
     /\ Apply(r)
     /\ joined' = TRUE
     /\ up' = TRUE
     /\ UNCHANGED n

Crash == /\ Restart(disk, diskOff)
         /\ hist' = Append(hist, <<"crash", "">>)

CleanRestart ==
  LET dk == [t \in Tables |-> [e \in Entries |-> disk[t][e] + mem[t][e]]]
      dko == [t \in Tables |-> IF dirty[t] \/ \E e \in Entries : mem[t][e] > 0 THEN memOff[t] ELSE diskOff[t]]
  IN /\ Restart(dk, dko)
     /\ hist' = Append(hist, <<"stopstart", "">>)

Cut == /\ up
       /\ up' = FALSE
       /\ UNCHANGED <<n, mem, disk, memOff, diskOff, dirty, folOff, startOff, spec, joined, lastDel>>
       /\ hist' = Append(hist, <<"cut", "">>)

\* server.followSource: same Follow request, EarliestOffset advanced to the last entry inserted
Reconnect == /\ ~up
             /\ LET earliest == IF lastDel > 0 THEN lastDel ELSE Earliest(startOff)
                    r == Join(earliest, startOff, mem, memOff, dirty, folOff, lastDel)
                IN Apply(r)
             /\ up' = TRUE
             /\ joined' = TRUE
             /\ UNCHANGED <<n, disk, diskOff, startOff>>
             /\ hist' = Append(hist, <<"reconnect", "">>)

\* the leader restarts (its WAL survives, its specs do not); followers follow again at once
LeaderRestart == /\ LET earliest == IF lastDel > 0 THEN lastDel ELSE Earliest(startOff)
                        r == Join(earliest, startOff, mem, memOff, dirty, folOff, lastDel)
                    IN Apply(r)
                 /\ up' = TRUE
                 /\ joined' = TRUE
                 /\ UNCHANGED <<n, disk, diskOff, startOff>>
                 /\ hist' = Append(hist, <<"restartleader", "">>)

Next == /\ Len(hist) < MaxLen
        /\ \/ Insert
           \/ \E t \in Tables : Flush(t)
           \/ Crash
           \/ CleanRestart
           \/ Cut
           \/ Reconnect
           \/ LeaderRestart

Spec == Init /\ [][Next]_vars

Applied(t, e) == mem[t][e] + disk[t][e]
Expected(t, e) == IF e <= n /\ InPart(t, e) /\ Where(t, e) THEN 1 ELSE 0

\* never more than once; exactly once when the link is up (every macro step ends caught up)
ExactlyOnce == \A t \in Tables : \A e \in Entries :
                 /\ Applied(t, e) <= 1
                 /\ (up => Applied(t, e) = Expected(t, e))
                 /\ (~up => Applied(t, e) <= Expected(t, e))
=============================================================================
