CONSTANTS
  MaxIns = 3
  MaxLen = 5
  FixD10 = TRUE
SPECIFICATION Spec
INVARIANT ExactlyOnce
