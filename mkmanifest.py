#!/usr/bin/env python3
"""Regenerates MANIFEST.json from the table below (kept in one place so the
manifest is always valid and current)."""
import json, subprocess

CHECKS = {
 "C01": dict(cat="model_checking", tech="explicit-state exploration of event sequences on the real DB vs reference model",
   text="All event sequences up to the bound (14-point insert alphabet, Flush(t1), FlushAll; schemas {t1} and {t1,t2,view}; t1 carries SUM, COUNT, MIN, MAX, AVG, WAVG, BOUNDED, arithmetic and IF fields incl. composite fields with an IF on either side), started from the empty database and from a state with two keys on disk and a point in memory, are executed on the real database with exact quiescence after each event; after every event, on every distinct storage state, every table's native query must equal a reference model that recomputes each aggregate from the raw points. Exhaustive within the bound, not beyond it.",
   note="Trusted: the reference model (plain Go, no zenodb code), exact quiescence via hook counters, virtual clock. Alphabet and sequence length are the bound. Values of periods that have left the retention window are not compared (retention is C14's subject). Known finding D9 (array tails applied twice) is matched only when the result equals the tail-doubled model.",
   ref="§3 C01"),
 "C05": dict(cat="exploration", tech="exhaustive small-scope enumeration of expression trees / update splits / series alignments",
   text="Pure functions, so the bounded space is enumerated completely: every valid expression tree up to the depth bound, every update sequence up to length 3 over a 4-value alphabet, every split into 2 and 3 parts (merge == single state, commutative, associative, operands untouched); and for a 6-period window every pair of series masks × truncation instants for Merge, every mask × (asOf, until) pair for Truncate, every insertion order for UpdateValue, against a map[period]value reference.",
   note="PERCENTILE values are compared with single-state accumulation by the expr package itself (HDR histogram arithmetic trusted). Periods older than truncateBefore are unconstrained. SubMerge is exercised through C06/C07 queries rather than here.",
   ref="§3 C05"),
 "C03": dict(cat="model_checking", tech="exhaustive enumeration of flush/restart schedules per insert sequence on the real DB (metamorphic + reference model)",
   text="For every insert sequence of the bound (an 8-point alphabet and a keyed 6-point alphabet with three keys, so that flushes merge files holding several keys absent from the memstore), every flush/restart schedule (after each insert: nothing, flush, clean restart, both) is executed on the real database, with unsorted and sorted (memory-cap) forced flushes, plain and large-state (PERCENTILE, SHIFT) schemas, and long schedules crossing the truncating 10th flush; every schedule must return the rows of the no-flush schedule for 17/12 field-subset queries, equal the reference model, and give disk-only == mem-inclusive right after each flush.",
   note="Timed flushes are explored as the forced-flush actor message (same code path apart from allowSort); real flush timers are pushed out of the way (MinFlushLatency 1h). PERCENTILE/SHIFT fields are compared schedule-vs-schedule only.",
   ref="§3 C03"),
 "C04": dict(cat="model_checking", tech="explicit-state: all distinct storage states × query alphabet, byte-level state comparison on the real DB",
   text="Every distinct storage state (by decoded VerifDump key) reached by the bounded histories and placements is subjected to the whole 48/12-query alphabet with and without memstore; after each query the decoded bytes of file store and memstore and two probe queries must be unchanged, and the probes must still agree after the next flush. The baseline probes are cross-checked against a second fresh instance of the same state that issues them in the opposite order; on every state two queries are also made to end abnormally (consumer error at row 1 / 2, deadline already expired, deadline passing while a row is delivered), which must leave the data alone just the same. Thorough adds all ordered query pairs on representative states.",
   note="Query alphabet and histories are the bound; a query outside the alphabet is not covered.",
   ref="§3 C04"),
 "C09": dict(cat="exploration", tech="exhaustive enumeration of ORDER BY key lists × LIMIT/OFFSET on real DBs with an independent comparator",
   text="All key lists up to length 3 (quick) / 4 (thorough) over {_time, x, y, a, av} with all ASC/DESC assignments × LIMIT {absent,0,1,2,3,100} × OFFSET {absent,0,1,2,100} on 5 tie-heavy datasets: same multiset as unordered, sorted under an independently written lexicographic comparator, LIMIT/OFFSET slice checked by sort-key tuples.",
   note="Ties may be broken either way; missing dims may sort to either end (consistently). Mixed-type dims are not in the datasets.",
   ref="§3 C09"),
 "C18": dict(cat="model_checking", tech="exhaustive placement of interfering events between row deliveries of a real scan (row callback as scheduling point)",
   text="For 5 histories (incl. everything on disk with an empty memstore, and an empty table) and both memstore options, every single placement and every ordered pair (quick) plus every ordered triple (thorough) of 8 interfering events at every position from the scan snapshot to the last key is executed with exact quiescence inside the scan's callback; every delivered row must equal the reference model at scan start.",
   note="Interleavings are at row-callback granularity (plus the snapshot hook); unsynchronised accesses are outside this check.",
   ref="§3 C18"),
 "C17": dict(cat="model_checking", tech="exhaustive enumeration of coalesced batches with harness-controlled batch composition on the real doProcessIterations",
   text="The iteration intercept parks every scan request; the harness hands exactly the chosen batch (all 2- and 3-subsets of a 10-query alphabet in every arrival order, all 4-subsets and the 8- and 10-query batches in quick; every split of the 4-subsets into two successive batches and all 5-subsets in thorough) to the real doProcessIterations, on 4 datasets × {memory, disk, split, altered (fields added after the file was written)}; every query's rows and error must equal its solo run; each batch runs 4 times because Go map order inside the combined callback is uncontrolled.",
   note="Arrival inside/outside the coalesce interval is modelled as the choice of batch composition; the coalescer's timer itself is not exercised. For LIMIT / failing consumers the row count is compared.",
   ref="§3 C17"),
 "C14": dict(cat="model_checking", tech="explicit-state exploration of insert/clock/flush/restart sequences on the real DB with the virtual clock as an event",
   text="All event sequences of the bound over late/boundary inserts on two keys, three clock advances, Flush, Flush×10 (guaranteeing a truncating flush), the same with an empty flush after each data-carrying one, and Restart, for several retention/resolution ratios, started from the empty table and from a table whose file already holds an older point; after every event on every distinct state the four clauses of the property are checked against the list of accepted points through native, grouped, relative-range and wider-than-retention queries and the decoded storage (VerifDump).",
   note="'Older' is strict (a point exactly at now - retention is accepted; its period may be dropped by the next flush since it is no longer inside the window, so values of periods ending at or before now - retention are only required to consist of accepted points). Virtual clock restarts at the model's now after Restart.",
   ref="§3 C14"),
 "C15": dict(cat="model_checking", tech="explicit-state exploration of insert/flush/restart/ApplySchema sequences on the real DB vs a per-field reference model",
   text="All event sequences of the bound over 4 inserts, Flush, Restart and ApplySchema with 15 layouts (rotations, every deletion, every insertion position of a new field, delete+insert, two WHERE variants; a wide PERCENTILE field included), at most 2 alters per sequence, started from the empty table and from three non-initial states (two keys on disk / in memory / on disk with the new field added); after every event on every distinct state SELECT *, each single field, a reversed pair and the whole list - also under an aligned ASOF…UNTIL and an aligned ASOF - must equal a model that tracks per field the points processed while the field was continuously present.",
   note="Re-added fields are unconstrained (the property does not speak to them). 'Processed before/after the alter' is exact because the driver quiesces before each alter and then sends a forced-flush request through the same row-store actor as a barrier (it does not wait on state).",
   ref="§3 C15"),
 "C06": dict(cat="exploration", tech="exhaustive small-scope enumeration of datasets × storage splits × clock positions × groupings × period multiples × field lists on real DBs with an anchoring-agnostic interval oracle",
   text="Every dataset of the bound (all sets of up to 2/3 cells over 6 keys × 5 periods plus richer sets) × {memory, disk, split} × 4 clock positions × 5 groupings × 6 period multiples (incl. non-divisors and larger than the window) × 5 field lists (three of them also under an explicit ASOF 1.5 s and 2 s after the first period, so that data lies before the bound and the window is not a multiple of the period) is queried on a real DB; per key the returned intervals must be disjoint, every point inside the window covered exactly once, every row equal to the aggregate recomputed from the raw points of its interval, no row without points.",
   note="Bucket anchoring and the planner's clamping of over-long periods are left open, as the property leaves them open; a row straddling a window edge may hold any subset of the points of its own interval that lie inside the requested range; P is read from the plan. Values are distinct powers of two so sums identify the contributing points.",
   ref="§3 C06"),
 "C07": dict(cat="exploration", tech="exhaustive enumeration of (asOf, until) pairs × groupings × datasets on real DBs with the interval oracle",
   text="Every (asOf, until) pair from a grid of absent / every boundary and mid-period instant around the data / relative offsets (421 pairs, empty and inverted ranges included) × 4 groupings × datasets × storage {memory, disk, split, altered: a field added in front of the others half-way, queried first} × 2 clock positions, plus the same grid applied to FROM-subqueries that carry absolute ranges of their own (compared with the direct query over the intersected range): every native period wholly inside the range is covered exactly once with recomputed values, nothing ends at or before asOf or begins at or after until, empty ranges yield an error or no rows, the default window brackets (now - retention, now].",
   note="A coarser row straddling a range edge may hold any subset of the points of its own interval that lie inside the requested range (none from stored periods ending at or before asOf or beginning at or after until). A range whose asOf lies before the table window may be refused.",
   ref="§3 C07"),
 "C08": dict(cat="exploration", tech="exhaustive enumeration of a predicate grammar against an independent three-valued evaluator, plus HAVING / IN / FROM-subquery differentials",
   text="820 WHERE predicates (10 atoms, their negations, all AND/OR pairs) × 3 query shapes × 6 datasets judged by a harness-written evaluator through the interval oracle; 20 HAVING predicates × 4 select lists × 3 shapes against the HAVING-free query; 12 IN-subquery pairs against literal lists, 232 combinations of several / nested IN-subqueries in one WHERE against the literal lists; 20 FROM-subquery pairs against re-aggregation of the materialised inner rows, 20 CROSSTAB queries over re-aggregating FROM-subqueries against the same query directly over the table.",
   note="Comparisons against an absent dimension, and HAVING rows with an unset operand, are unconstrained (three-valued). Quick runs every third WHERE predicate.",
   ref="§3 C08"),
 "C10": dict(cat="exploration", tech="exhaustive differential: config × dataset × query on a real in-process cluster vs a standalone DB",
   text="Every configuration (P, leaders, followers per partition) × dataset × 100 queries (20 per table, 5 tables covering every partitionBy variant, one of them with its keys declared out of alphabetical order) is executed on a real in-process cluster wired through the public seams and on a standalone DB fed the same points; rows, order under ORDER BY, per-partition placement sums, redundant followers and partition statistics are compared.",
   note="Clocks are advanced together. Leader queries are retried while a partition has no live handler (availability is C13's subject). Known finding D13 (OFFSET applied twice in pushdown) is matched only when the result equals the prediction computed from the followers' own answers.",
   ref="§3 C10"),
 "C12": dict(cat="model_checking", tech="deviation-bounded exploration of fault sequences on a real in-process cluster with harness-owned links and exact quiescence, plus explicit-state TLC exploration of a TLA+ offset hand-over model whose every behaviour is replayed against the real cluster",
   text="The base schedule (3/4 inserts through the leader(s), eager delivery) plus every placement of up to 2 fault events (flush one table, flush all, clean stop/start, crash with the directory image of that instant, cut, reconnect, gate, ungate, leader restart, snapshot, restore) at every position, on two tables with different partition keys so per-table offsets diverge, from the empty cluster and from a state in which every table of every follower already has a stored offset; the same with the second table added to every node while the followers are already following (late subscription); after healing, every table's rows summed over partitions must equal a standalone DB, redundant followers must be identical and leader queries must equal standalone. Second layer: models/c12_follow.tla (per-table stored offsets, follower joins from the earliest offset, skipping per table, flushes, clean restarts, crash to an older image, leader restart) is checked by TLC for ExactlyOnce; its state graph is dumped and every maximal path of the history variable is replayed on the real cluster, comparing per-table applied counts step by step.",
   note="The reconnect policy of server.followSource is re-implemented in the driver; the cross-check against real server processes over gRPC (layer 3 of DESIGN §C12) is not built. TLC runs as a pre-step of the check (about 15 s); with FixD10=FALSE the model reproduces the repaired defect D10.",
   ref="§3 C12"),
 "C02": dict(cat="fault_enumeration", tech="exhaustive crash-image enumeration: every hit of every instrumented step of every bounded history, plus torn WAL tails, recovered on the real code",
   text="Every history of the bound over 4 inserts, Flush(t1), FlushAll and clean Restart on two tables (one with a WHERE, reaching the offset-only flush path), started from the empty directory and from a non-initial state (data files exist and one table's offset file is ahead of its data file), runs once on the real write path; at every hit of each of 17 instrumented steps the data directory is copied (exactly what SIGKILL at that instant leaves) and the in-flight WAL entry is additionally torn to 6 length classes; every distinct image is recovered by a fresh DB to exact quiescence and compared with the reference model of acknowledged inserts (in-flight: 0 or 1); thorough recovers twice. A real child process exiting inside the hook validates the image abstraction.",
   note="Process-kill model (page cache survives): no unsynced-block subsets, no reordered renames. Kill instants inside the wal dependency are represented only by the torn-tail classes. Conformance compares file rank and size (contents embed wall-clock WAL offsets).",
   ref="§3 C02"),
 "C11": dict(cat="translation_validation", tech="per-program translation validation: every enumerated SQL program planned by the real planner for a cluster and locally, both executed over mock partitions",
   text="Every program of the bounded grammar (67 536 SQL texts incl. FROM-subqueries that drop or alias-shadow a grouping dimension; quick: every 12th) × 4 partition-key sets × N in 1..6 × 3 row sets is planned with and without QueryCluster by the real planner over mock tables; the cluster plan runs against partitions split by the same murmur3 rule, the local plan over their union; fields and rows must agree (order under ORDER BY, any n rows under a bare LIMIT) and whole-query pushdown must keep every output group on one partition.",
   note="The mock QueryCluster mirrors DB.queryCluster (per-partition planning, first partition's fields). Known findings D8, D13, D14, D15, D20 are matched by narrow predicates (specific clause shape plus the exact discrepancy); wrong rows outside those shapes are violations.",
   ref="§3 C11"),
 "C13": dict(cat="fault_enumeration", tech="exhaustive fault enumeration (deadline positions, partition-failure subsets and modes, size caps) on the real code with a complete run as ground truth",
   text="Deadlines made to expire after every row position (and already expired) for 30 query shapes; for P in {2,3} every non-empty subset of partitions × 5 failure modes (every k for mid-stream errors) × pushdown and non-pushdown queries with harness-registered handlers; a memory cap tripping at row 1000 under 11 query shapes (bare scan, group stages, filter, having, sort, limit, range, FROM- and IN-subquery) against the uncapped results; for P=2 the partition error modes again with every handler answering over real gRPC (rpc.Client.ProcessRemoteQuery against the leader's server); and through the web API: query timeout, response-size estimate after every K <= 6, final size check, planning error on /immediate, /async, /run, then a cache hit and the permalink. Each faulted run must error, report the partition missing, answer non-200, or be complete.",
   note="Deadlines are outlasted deterministically, never raced. A partition untouched by the harness that is nevertheless reported missing marks the run incomplete. /run and /async (5 s coalescing wait) are exercised for one query each.",
   ref="§3 C13"),
 "C16": dict(cat="exploration", tech="exhaustive enumeration of bounded mutation operators over a seed corpus (SQL) and of a payload universe (inserts), each executed under recover() with a watchdog",
   text="Every statement kind and unsupported SELECT construct, every single-token deletion / duplication / adjacent swap / truncation prefix of a 71-query corpus, every function name × arity 0..6 × 10 argument kinds × 3 argument patterns × clause position, through sql.Parse, sql.TableFor, planner.Plan (local and clustered) and DB.Query; the full 26×26 product of value kinds as dim and value, every prefix and single-byte corruption of valid raw byte maps, on a standalone DB and through a cluster leader, plus web JSON bodies - each payload sandwiched between marker points that must both be ingested exactly once.",
   note="The property speaks about parsing and planning: plans that panic only when executed (goexpr dimension functions fed wrong argument types) are counted, not reported. Unrecoverable crashes (D16 stack overflow, D17 out of memory) are observed in child processes and matched by their exact signature.",
   ref="§3 C16"),
 "C19": dict(cat="exploration", tech="complete enumeration of the request lattice over real gRPC and HTTP endpoints",
   text="RPC (real gRPC on 127.0.0.1): server password {unset, set} × credential {none, wrong, right, prefix, longer} × {Query, Follow, remote-query handler registration followed by a leader query}; web (httptest with known cookie keys): OAuth {unset, set} × static password {unset, set} × 8 credentials (tokens, forged / garbage / future / just-expired / long-expired cookies) × {/immediate, /async, /cached/{permalink}}. The identity provider (github.com token exchange, api.github.com org check) is an environment whose answers the harness prescribes through http.DefaultTransport: expired session × 8 org answers × a second request with whatever session cookie the first response set × 3 org answers; OAuth callback with a valid state × 5 token answers × 8 org answers, then a query with the cookie the callback set. Only valid credentials / sessions the provider verified may obtain rows, WAL entries or query text; valid callers must be served.",
   note="The provider model vouches only for the two access tokens it knows (the one it issues, the one inside the harness's cookies); XSRF state expiry (1 minute of wall clock) is not explored.",
   ref="§3 C19"),
 "C20": dict(cat="exploration", tech="exhaustive round-trip enumeration through the real codec plus end-to-end differential over real gRPC",
   text="Every valid expression tree of the generator (depth 2 quick / 3 thorough) as a field through rpc.Codec: same text, width, validity, shift and identical behaviour under every update sequence up to length 3 and under merges; every scalar type, series, rows, stats, metadata, queries, follow requests through their messages; 20 queries × 3 datasets embedded vs rpc client/server, and via a follower answering on behalf of the leader through ProcessRemoteQuery vs standalone, plus a long-series dataset whose raw rows exceed an HTTP/2 frame many times; the bytes Marshal returns must not change when the next message is marshalled.",
   note="Partitions without a connected handler over RPC are C13's subject and mark a run incomplete here.",
   ref="§3 C20"),
}

NOT_YET = {}

def main():
    props = [json.loads(l) for l in open('/verif/properties.jsonl')]
    hooks = subprocess.run(['git','-C','/repo','log','--format=%h %s'],capture_output=True,text=True).stdout.strip().split('\n')
    hook_commits = [l.split()[0] for l in hooks if l.split(' ',1)[1].startswith('verif:')]
    checks=[]
    na=[]
    for p in props:
        pid=p['id']
        if pid in CHECKS:
            c=CHECKS[pid]
            checks.append({
              "property_id": pid,
              "quick_cmd": f"./check {pid} quick",
              "thorough_cmd": f"./check {pid} thorough",
              "evidence_file": f"/verif/evidence/{pid}.json",
              "replay_cmd_template": f"./check {pid} --replay {{path}}",
              "engine": "mc",
              "level_claimed": {"category": c['cat'], "text": c['text'], "design_ref": c['ref']},
              "level_note": c['note'],
              "technique": c['tech'],
            })
        else:
            na.append({"property_id": pid, "reason": NOT_YET.get(pid, "check not built yet (work in progress; DESIGN.md plans a bounded-exhaustive check for it)")})
    m={
      "version":1,
      "setup_cmd":"./check --build",
      "hooks":{"guard":"verif","enable":"go build -tags verif (plus -overlay for the wal poll interval), done by ./check",
               "baseline_off_cmd":"cd /repo && GOFLAGS=-mod=mod go test -vet=off -count=1 -timeout 25m ./...",
               "source_commits":hook_commits,"add_only":True},
      "engines":[{"name":"mc","path":"/verif/mc","serves_properties":[c['property_id'] for c in checks],
                  "kind_free_text":"hand-written bounded-exhaustive explorer in Go: deterministic driver over the real zenodb code (hook-counter quiescence), sharded worker subprocesses, reference model oracle"}],
      "checks":checks,
      "not_applicable":na,
      "notes":"See DESIGN.md. Known findings and fixed defects: known_findings.json.",
    }
    json.dump(m,open('/verif/MANIFEST.json','w'),indent=1)
    import jsonschema
    jsonschema.validate(m,json.load(open('/root/.vp/MANIFEST.schema.json')))
    print("MANIFEST ok:",len(checks),"checks,",len(na),"not yet")
main()
