#!/usr/bin/env python3
"""Regenerates MANIFEST.json from the table below (kept in one place so the
manifest is always valid and current)."""
import json, subprocess

CHECKS = {
 "C01": dict(cat="model_checking", tech="explicit-state exploration of event sequences on the real DB vs reference model",
   text="All event sequences up to the bound (14-point insert alphabet, Flush(t1), FlushAll; schemas {t1} and {t1,t2,view}) are executed on the real database with exact quiescence after each event; after every event, on every distinct storage state, every table's native query must equal a reference model that recomputes each aggregate from the raw points. Exhaustive within the bound, not beyond it.",
   note="Trusted: the reference model (plain Go, no zenodb code), exact quiescence via hook counters, virtual clock. Alphabet and sequence length are the bound. Known finding D9 (array tails applied twice) is matched only when the result equals the tail-doubled model.",
   ref="§3 C01"),
 "C05": dict(cat="exploration", tech="exhaustive small-scope enumeration of expression trees / update splits / series alignments",
   text="Pure functions, so the bounded space is enumerated completely: every valid expression tree up to the depth bound, every update sequence up to length 3 over a 4-value alphabet, every split into 2 and 3 parts (merge == single state, commutative, associative, operands untouched); and for a 6-period window every pair of series masks × truncation instants for Merge, every mask × (asOf, until) pair for Truncate, every insertion order for UpdateValue, against a map[period]value reference.",
   note="PERCENTILE values are compared with single-state accumulation by the expr package itself (HDR histogram arithmetic trusted). Periods older than truncateBefore are unconstrained. SubMerge is exercised through C06/C07 queries rather than here.",
   ref="§3 C05"),
}

NOT_YET = {}

def main():
    props = [json.loads(l) for l in open('/verif/properties.jsonl')]
    hooks = subprocess.run(['git','-C','/repo','log','--format=%h %s'],capture_output=True,text=True).stdout.strip().split('\n')
    hook_commits = [l.split()[0] for l in hooks if l.split(' ',1)[1].startswith('verif:')]
    checks=[]
    na=[]
    for p in props:
        pid=p['id']
        if pid in CHECKS:
            c=CHECKS[pid]
            checks.append({
              "property_id": pid,
              "quick_cmd": f"./check {pid} quick",
              "thorough_cmd": f"./check {pid} thorough",
              "evidence_file": f"/verif/evidence/{pid}.json",
              "replay_cmd_template": f"./check {pid} --replay {{path}}",
              "engine": "mc",
              "level_claimed": {"category": c['cat'], "text": c['text'], "design_ref": c['ref']},
              "level_note": c['note'],
              "technique": c['tech'],
            })
        else:
            na.append({"property_id": pid, "reason": NOT_YET.get(pid, "check not built yet (work in progress; DESIGN.md plans a bounded-exhaustive check for it)")})
    m={
      "version":1,
      "setup_cmd":"./check --build",
      "hooks":{"guard":"verif","enable":"go build -tags verif (plus -overlay for the wal poll interval), done by ./check",
               "baseline_off_cmd":"cd /repo && GOFLAGS=-mod=mod go test -vet=off -count=1 -timeout 25m ./...",
               "source_commits":hook_commits,"add_only":True},
      "engines":[{"name":"mc","path":"/verif/mc","serves_properties":[c['property_id'] for c in checks],
                  "kind_free_text":"hand-written bounded-exhaustive explorer in Go: deterministic driver over the real zenodb code (hook-counter quiescence), sharded worker subprocesses, reference model oracle"}],
      "checks":checks,
      "not_applicable":na,
      "notes":"See DESIGN.md. Known findings and fixed defects: known_findings.json.",
    }
    json.dump(m,open('/verif/MANIFEST.json','w'),indent=1)
    import jsonschema
    jsonschema.validate(m,json.load(open('/root/.vp/MANIFEST.schema.json')))
    print("MANIFEST ok:",len(checks),"checks,",len(na),"not yet")
main()
